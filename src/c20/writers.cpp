// C20 oracle (iv), second object: the MUTATING members.  The property also promises that threads may mutate DISTINCT
// container objects without synchronisation -- which fails as soon as any member function, const or not, keeps hidden
// mutable state outside the object (a function-local static scratch buffer, a cache, a counter).  This TU instantiates
// the whole classes (explicit instantiation = every non-template member) plus the member templates (range insert
// from forward and from input iterators, insert/assign from initializer_list, emplace, merge, swap, growth paths,
// SmallSet small -> large), for trivially relocatable (int) and non-trivially relocatable (std::string) elements.
// It is only compiled (-O0 -c) and listed with nm by checks/c20.py -- never run: no symbol under amc:: may live in
// a writable section and no guard variable for an amc:: object may exist.
#include <iterator>
#include <string>

#include "c20/ops.hpp"

namespace c20 {

// minimal single-pass input iterator over an int array (no <sstream> needed)
template <class T>
struct InputIt {
  using iterator_category = std::input_iterator_tag;
  using value_type = T;
  using difference_type = std::ptrdiff_t;
  using pointer = const T *;
  using reference = const T &;
  const T *p;
  reference operator*() const { return *p; }
  pointer operator->() const { return p; }
  InputIt &operator++() {
    ++p;
    return *this;
  }
  InputIt operator++(int) {
    InputIt o = *this;
    ++p;
    return o;
  }
  bool operator==(const InputIt &o) const { return p == o.p; }
  bool operator!=(const InputIt &o) const { return p != o.p; }
};

template <class V, class T>
void use_vector(const T (&arr)[3]) {
  V v, w;
  v.push_back(arr[0]);
  v.emplace_back(arr[1]);
  v.insert(v.begin(), arr[2]);
  v.insert(v.begin(), T(arr[0]));
  v.insert(v.end(), arr, arr + 3);
  v.insert(v.end(), InputIt<T>{arr}, InputIt<T>{arr + 3});
  v.insert(v.begin(), {arr[0], arr[1]});
  v.insert(v.begin(), 2, arr[0]);
  v.emplace(v.begin(), arr[1]);
  v.assign(arr, arr + 3);
  v.assign(InputIt<T>{arr}, InputIt<T>{arr + 3});
  v.assign({arr[0], arr[1]});
  v.assign(2, arr[2]);
  v = {arr[0], arr[1], arr[2]};
  w = v;
  w = std::move(v);
  v.swap(w);
  v.resize(1);
  v.resize(3, arr[0]);
  v.erase(v.begin());
  v.erase(v.begin(), v.end());
  v.pop_back();
  v.clear();
  V x(arr, arr + 3), y(InputIt<T>{arr}, InputIt<T>{arr + 3}), z{arr[0], arr[1]}, q(3, arr[0]), r(std::move(x));
  (void)(y == z);
}

template <class V>
void use_growing_vector() {
  V v;
  v.reserve(10);
  v.shrink_to_fit();
}

template <class S, class T>
void use_set(const T (&arr)[3]) {
  S s, o;
  s.insert(arr[0]);
  s.insert(T(arr[1]));
  s.insert(s.begin(), arr[2]);
  s.insert(s.begin(), T(arr[2]));
  s.insert(arr, arr + 3);
  s.insert(InputIt<T>{arr}, InputIt<T>{arr + 3});
  s.insert({arr[2], arr[0]});
  s.emplace(arr[0]);
  s.emplace_hint(s.begin(), arr[1]);
  s = {arr[1], arr[0]};
  o = s;
  o = std::move(s);
  s.swap(o);
  s.merge(o);
  s.erase(arr[0]);
  s.erase(s.begin());
  s.erase(s.begin(), s.end());
  auto nh = o.extract(arr[1]);
  s.insert(std::move(nh));
  if (!o.empty()) s.insert(s.begin(), o.extract(o.begin()));
  s.clear();
  S x(arr, arr + 3), y(InputIt<T>{arr}, InputIt<T>{arr + 3}), z{arr[0], arr[1]}, r(std::move(x));
  (void)(y == z);
}

using Str = std::string;

void instantiate_writers() {
  const int ia[3] = {3, 1, 2};
  const Str sa[3] = {"c", "a", "b"};
  use_vector<amc::vector<int>>(ia);
  use_vector<amc::SmallVector<int, 4>>(ia);
  use_vector<amc::vector<Str>>(sa);
  use_vector<amc::SmallVector<Str, 2>>(sa);
  use_growing_vector<amc::vector<int>>();
  use_growing_vector<amc::SmallVector<Str, 2>>();
  use_vector<amc::FixedCapacityVector<int, 16>>(ia);
  use_vector<amc::FixedCapacityVector<Str, 16>>(sa);
  use_set<amc::FlatSet<int>>(ia);
  use_set<amc::FlatSet<int, DualLess>>(ia);
  use_set<amc::FlatSet<Str>>(sa);
  use_set<amc::SmallSet<int, 4>>(ia);
  use_set<amc::SmallSet<Str, 2>>(sa);
  use_set<amc::SmallSet<int, 4, std::less<int>, amc::allocator<int>, amc::FlatSet<int>>>(ia);
  use_set<amc::SmallSet<int, 4, DualLess, amc::allocator<int>, amc::FlatSet<int, DualLess>>>(ia);
}

}  // namespace c20

// every non-template member of the main instantiations, used above or not
template class amc::FlatSet<int>;
template class amc::SmallSet<int, 4>;
template class amc::SmallSet<int, 4, std::less<int>, amc::allocator<int>, amc::FlatSet<int>>;
