"""C18 -- growth is geometric (grid_c18.cpp): every n up to NMAX from every start state, checked at every n."""
from checks import e1, grids

RULE = ("one evaluation = one append (checked against the running bounds) or one reserve call; distinct non-trivial = scenarios (start state x "
        "configuration) in which at least one reallocation happened / reserve calls that had to grow")
ASSUME = ["allocator calls are counted by the ledger allocators; relocated elements = live elements at each capacity change (and move constructions for the non-relocatable element type)",
          "bounds exactly as stated in the property: reallocations <= 2*ceil(log2 n)+4 and relocations <= 6n+16 at every n; growth step >= ceil(1.5*cap) unless clamped by size_type",
          "identity-tracked element types are bounded by the fixed-size lifetime ledger and run to n = 4096 in both tiers; untracked configurations run to n = 100000 in the thorough tier"]


def run(ctx):
    q = ctx.tier == "quick"
    I = e1.inst
    insts = [
        I("vector", 0, "TC4", alloc="ledgerbasic"),       # amc's BasicAllocatorWrapper: realloc path
        I("vector", 0, "NTR", alloc="ledgerstd"),         # allocate + relocate + deallocate
        I("small", 2, "TR", alloc="ledgerrealloc"),
        I("small", 5, "NTR", alloc="ledgerstd"),
        I("vector", 0, "TR", st="uint8_t", alloc="ledgerrealloc"),
        I("small", 2, "TC4", st="int8_t", alloc="ledgerbasic"),
        I("vector", 0, "TC4", st="uint16_t", alloc="ledgerrealloc"),
    ]
    if not q:
        insts += [I("small", 5, "TC1", st="uint64_t", alloc="ledgerbasic"), I("vector", 0, "PTN", alloc="ledgerstd"), I("small", 3, "PTT", st="int32_t", alloc="ledgerrealloc"),
                  I("vector", 0, "NTR", st="int16_t", alloc="ledgerstd"), I("small", 1, "TC12", alloc="ledgerbasic"), I("small", 3, "TC4", alloc="ledgerstd")]

    def nmax(i):
        return "4096" if (q or i["elem"] in e1.TRACKED) else "100000"

    cov = None
    for nm in sorted(set(nmax(i) for i in insts)):
        configs = [(e1.name(i), e1.flags(i)) for i in insts if nmax(i) == nm]
        c = grids.run_grids(ctx, "grid_c18.cpp", "G18", configs, ["--nmax", nm], lambda f: e1.norm(f.split("|")[0] + "|" + f.split("|")[-1]), RULE)
        if cov is None:
            cov = c
        else:
            for k in ("evaluations", "distinct_nontrivial"):
                cov[k] += c[k]
            cov["samples"] += c["samples"]
            cov["configurations"] += c["configurations"]
    # growth steps taken by every OTHER growing operation (bulk insert / append / resize / assign beyond the capacity,
    # from every reachable (size, capacity) state incl. size < capacity after a reserve): E1 with the C18 growth rule
    o = ["--few-ranges", "--no-ctors", "--no-menu", "--no-alias"]
    em = [I("vector", 0, "TC4", alloc="ledgerbasic", L=5, opts=o), I("small", 2, "NTR", alloc="ledgerstd", L=5, opts=o),
          I("vector", 0, "TR", st="uint8_t", alloc="ledgerrealloc", L=4, opts=o), I("small", 3, "TC4", st="int16_t", L=5, opts=o)]
    cov2 = e1.explore(ctx, em, ["C18"])
    cov["e1_states"] = cov2["states"]
    cov["e1_transitions"] = cov2["transitions"]
    cov["evaluations"] += cov2["transitions"]
    cov["samples"] += cov2["samples"][:3]
    cov["exhaustive"] = cov["exhaustive"] and cov2["exhaustive"]
    return ctx.finish("exploration", cov, ASSUME + ["growth rule for bulk operations: E1 transitions in which the capacity of a dynamic vector increases without reserve/move/swap must reach ceil(1.5 x old capacity)"])
