"""C05 -- inline-storage promise: E1 (FixedCapacityVector, SmallVector) and E2 (SmallSet), monitor 'inline'."""
from checks import c13, e1, e2


def run(ctx):
    q = ctx.tier == "quick"
    vm = [i for i in (e1.quick_matrix() if q else e1.thorough_matrix()) if e1.relevant("C05", i)]
    cov = e1.explore(ctx, vm, ["C05"])
    cov2 = e1.explore(ctx, e2.small_quick() if q else e2.small_thorough(), ["C05"], engine="E2", eng=e2.ENG)
    # swap2 (extras): an inline SmallVector exchanging with a fixed / inline / empty operand stays inline (explore_swap2.cpp)
    pairs = [("fcv5", "sv2", "TC4"), ("sv3_8", "sv5_16", "TR"), ("sv2", "fcv3", "NTR")] if q else \
        [(a, b, el) for (a, b), el in zip([(a, b) for a in ("fcv3", "fcv5", "sv2", "sv3_8", "sv5_16", "vec32") for b in ("sv2", "sv3_8", "sv5_16")], ["TC4", "TR", "NTR"] * 6)]
    cov3 = e1.explore(ctx, [c13.inst(a, b, el, L=4 if q else 5) for a, b, el in pairs], ["C05"], engine="E1s", eng=c13.ENG)
    return ctx.finish("model_checking", e1.merge_cov(e1.merge_cov(cov, cov2), cov3), e1.ASSUME + e2.ASSUME[1:])
