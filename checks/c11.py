"""C11 -- SmallSet iteration and iterator contract in and across both states (E2, iterator oracles)."""
from checks import e1, e2


def run(ctx):
    matrix = e2.small_quick() if ctx.tier == "quick" else e2.small_thorough()
    cov = e1.explore(ctx, matrix, ["C11"], engine="E2", eng=e2.ENG)
    return ctx.finish("model_checking", cov, e2.ASSUME)
