// C18 -- growth is geometric.  Complete grid: for every start state {empty, inline with j elements, after reserve(r) for
// every r <= 64, after shrink_to_fit with k elements} append one by one up to NMAX elements, checking at EVERY n:
//   reallocations so far <= 2*ceil(log2 n) + 4, relocated elements so far <= 6n + 16,
//   every growth step without reserve: cap' >= min(ceil(1.5*cap), max(size_type));
// reserve(n): exactly one allocator call and capacity >= n (for every n <= 64 from every start state);
// shrink_to_fit: capacity == size, or N and inline when the elements fit there.
//   -DCFG_FLAVOUR 0|1 -DCFG_N -DCFG_ELEM -DCFG_ST -DCFG_ALLOC (2 LedgerStd | 3 LedgerRealloc | 4 LedgerBasic wrapper)
#include <cmath>
#include <cstdio>
#include <string>
#include <vector>

#include "vec_cfg.hpp"
#include "win.hpp"

using namespace cfg;

static long g_eval = 0, g_growths = 0, g_nontrivial = 0;
static std::vector<std::string> g_fail, g_samples;
static std::string g_only;
static long NMAX = 4096;
static const long MAXV = (long)std::min<unsigned long long>(std::numeric_limits<ST>::max(), 1ULL << 40);

static long ceil_log2(long n) {
  long l = 0;
  while ((1L << l) < n) ++l;
  return l;
}
static long alloc_calls() { return vf::AL().n_alloc + vf::AL().n_realloc; }
static bool is_inline(const V &v) {
  const char *d = reinterpret_cast<const char *>(v.data()), *o = reinterpret_cast<const char *>(&v);
  return d >= o && d < o + sizeof(V);
}
static void fail(const std::string &id, const std::string &msg) {
  if (g_fail.size() < 40) g_fail.push_back(id + "|" + msg);
}

/// start: 0 empty | 1 inline/small with j elements | 2 reserve(r) | 3 k elements then shrink_to_fit | 4 k+3, pop 3, shrink_to_fit
static void scenario(int start, long arg) {
  char idb[96];
  std::snprintf(idb, sizeof idb, "append|start=%d|arg=%ld", start, arg);
  std::string id = idb;
  if (!g_only.empty() && g_only != id) return;
  vf::L().reset();
  vf::AL().reset();
  {
    V v;
    if (start == 1) for (long i = 0; i < arg; ++i) v.push_back(E::make(1));
    if (start == 2) v.reserve((typename V::size_type)arg);
    if (start == 3 || start == 4) {
      // 3: arg elements, never more; 4: arg + 3 elements (heap for a SmallVector), back to arg, then shrink_to_fit
      for (long i = 0; i < arg + (start == 4 ? 3 : 0); ++i) v.push_back(E::make(1));
      if (start == 4) for (int q = 0; q < 3; ++q) v.pop_back();
      v.shrink_to_fit();
      long want = (kSmall && arg <= N) ? N : arg;
      if ((long)v.capacity() != want) fail(id, "shrink_to_fit: capacity " + std::to_string((long)v.capacity()) + ", expected " + std::to_string(want));
      if (kSmall && arg <= N && !is_inline(v)) fail(id, "shrink_to_fit: elements fit inline but stay on the heap");
    }
    const long calls0 = alloc_calls();
    const long moves0 = vf::L().n_move_ctor + vf::L().n_copy_ctor;
    long relocated = 0;  // elements moved to a new block (measured through the capacity changes: all live elements move)
    long reallocs = 0;
    long cap = (long)v.capacity();
    const long limit = std::min<long>(NMAX, MAXV - (long)v.size());
    for (long n = 1; n <= limit; ++n) {
      const long sz = (long)v.size();
      v.push_back(E::make(2));
      ++g_eval;
      long ncap = (long)v.capacity();
      if (ncap != cap) {
        ++g_growths;
        ++reallocs;
        relocated += sz;
        long want = std::min<long>((3 * cap + 1) / 2, MAXV);
        if (ncap < want) fail(id, "growth step " + std::to_string(cap) + " -> " + std::to_string(ncap) + " at size " + std::to_string(sz) + " is less than a factor 1.5");
        if (ncap < sz + 1) fail(id, "capacity below size after growth");
        cap = ncap;
      }
      const long calls = alloc_calls() - calls0;
      if (calls != reallocs) fail(id, "allocator calls " + std::to_string(calls) + " != capacity changes " + std::to_string(reallocs) + " at n=" + std::to_string(n));
      const long bound = 2 * ceil_log2(n) + 4;
      if (reallocs > bound) {
        fail(id, "n=" + std::to_string(n) + ": " + std::to_string(reallocs) + " reallocations > 2*ceil(log2 n)+4 = " + std::to_string(bound));
        break;
      }
      if (relocated > 6 * n + 16) {
        fail(id, "n=" + std::to_string(n) + ": " + std::to_string(relocated) + " relocated elements > 6n+16");
        break;
      }
      if (std::is_same<T, vf::NTR>::value) {
        // non relocatable elements: relocations are visible as move constructions (one per element per growth)
        long moves = vf::L().n_move_ctor + vf::L().n_copy_ctor - moves0 - n;  // minus the n push_back(T&&) constructions
        if (moves > 6 * n + 16) {
          fail(id, "n=" + std::to_string(n) + ": " + std::to_string(moves) + " element moves > 6n+16");
          break;
        }
      }
    }
    if (reallocs > 0) ++g_nontrivial;
    if (g_samples.size() < 6 && (start != 2 || arg % 16 == 5))
      g_samples.push_back(id + " -> " + std::to_string(reallocs) + " reallocations, " + std::to_string(relocated) + " relocated elements for " + std::to_string(limit) + " appends, final capacity " + std::to_string(cap));
    if (vf::L().nfail) fail(id, std::string("ledger: ") + vf::L().fails[0].msg);
  }
  if (vf::AL().n != 0) fail(id, "blocks outstanding after destruction");
}

static void reserve_point(int start, long arg, long n) {
  char idb[96];
  std::snprintf(idb, sizeof idb, "reserve|start=%d|arg=%ld|n=%ld", start, arg, n);
  std::string id = idb;
  if (!g_only.empty() && g_only != id) return;
  if (n > MAXV) return;
  vf::L().reset();
  vf::AL().reset();
  {
    V v;
    if (start == 1) for (long i = 0; i < arg; ++i) v.push_back(E::make(1));
    if (start == 2) v.reserve((typename V::size_type)arg);
    const long cap0 = (long)v.capacity();
    const long calls0 = alloc_calls();
    v.reserve((typename V::size_type)n);
    ++g_eval;
    const long calls = alloc_calls() - calls0;
    if ((long)v.capacity() < n) fail(id, "capacity " + std::to_string((long)v.capacity()) + " < " + std::to_string(n));
    if (n > cap0) {
      ++g_nontrivial;
      if (calls != 1) fail(id, std::to_string(calls) + " allocator calls for one reserve");
    } else if (calls != 0)
      fail(id, "reserve within capacity called the allocator");
  }
}

int main(int argc, char **argv) {
  for (int a = 1; a + 1 < argc; ++a) {
    if (std::string(argv[a]) == "--case") g_only = argv[a + 1];
    if (std::string(argv[a]) == "--nmax") NMAX = std::atol(argv[a + 1]);
  }
  scenario(0, 0);
  for (long j = 1; j <= std::max(N, 3); ++j) scenario(1, j);
  for (long r = 0; r <= 64 && r <= MAXV; ++r) scenario(2, r);
  for (long k = 0; k <= 9; ++k) scenario(3, k);
  for (long k = 0; k <= 9 && k + 3 <= MAXV; ++k) scenario(4, k);
  for (int st = 0; st <= 2; ++st)
    for (long arg = (st == 0 ? 0 : 1); arg <= (st == 0 ? 0 : st == 1 ? std::max(N, 3) : 12); ++arg)
      for (long n = 0; n <= 64; ++n) reserve_point(st, arg, n);
  std::printf("{\"evaluations\":%ld,\"growth_steps\":%ld,\"distinct_nontrivial\":%ld,\"nmax\":%ld,\"failures\":[", g_eval, g_growths, g_nontrivial, NMAX);
  for (size_t i = 0; i < g_fail.size(); ++i) std::printf("%s\"%s\"", i ? "," : "", g_fail[i].c_str());
  std::printf("],\"samples\":[");
  for (size_t i = 0; i < g_samples.size(); ++i) std::printf("%s\"%s\"", i ? "," : "", g_samples[i].c_str());
  std::printf("]}\n");
  return g_fail.empty() ? 0 : 1;
}
