#!/usr/bin/env python3
"""keep_mutant.py <src-out-dir> <k> <seeded-id> <caught_by_csv> [<missed_by_csv>]: store a confirmed seeded change under seeded/<id>/"""
import json, os, shutil, sys
src, k, sid, caught = sys.argv[1:5]
missed = sys.argv[5] if len(sys.argv) > 5 else ""
d = os.path.join("/verif/seeded", sid)
os.makedirs(d, exist_ok=True)
shutil.copy(os.path.join(src, "m%s.diff" % k), os.path.join(d, "patch.diff"))
shutil.copy(os.path.join(src, "m%s_demo.cpp" % k), os.path.join(d, "demo.cpp"))
m = json.load(open(os.path.join(src, "m%s.json" % k)))
meta = {"breaks_property": m.get("property"), "summary": m.get("summary"), "needs_to_manifest": m.get("needs"), "files_changed": m.get("files_changed"),
        "origin": "fresh sub-agent given only the property text and a scratch worktree",
        "confirmed_by": "tools/confirm_mutant.sh in a scratch worktree: repository tests still pass (802 gtest cases), demo.cpp exits non-zero with the change and 0 without",
        "demo_build": m.get("demo_build"), "checks_run": "tools/try_mutant.sh patch.diff <check> (git apply on /repo, quick tier, git checkout afterwards)",
        "caught_by": [c for c in caught.split(",") if c], "missed_by": [c for c in missed.split(",") if c]}
json.dump(meta, open(os.path.join(d, "meta.json"), "w"), indent=1)
print("kept", d)
