"""C18 -- growth is geometric (grid_c18.cpp): every n up to NMAX from every start state, checked at every n."""
import re

from checks import e1, grids


def run(ctx):
    q = ctx.tier == "quick"
    I = e1.inst
    insts = [
        I("vector", 0, "TC4", alloc="ledgerbasic"),       # amc's BasicAllocatorWrapper: realloc path
        I("vector", 0, "NTR", alloc="ledgerstd"),         # allocate + relocate + deallocate
        I("small", 2, "TR", alloc="ledgerrealloc"),
        I("small", 5, "NTR", alloc="ledgerstd"),
        I("vector", 0, "TR", st="uint8_t", alloc="ledgerrealloc"),
        I("small", 2, "TC4", st="int8_t", alloc="ledgerbasic"),
        I("vector", 0, "TC4", st="uint16_t", alloc="ledgerrealloc"),
    ]
    if not q:
        insts += [I("small", 5, "TC1", st="uint64_t", alloc="ledgerbasic"), I("vector", 0, "PTN", alloc="ledgerstd"), I("small", 3, "PTT", st="int32_t", alloc="ledgerrealloc"),
                  I("vector", 0, "NTR", st="int16_t", alloc="ledgerstd"), I("small", 1, "TC12", alloc="ledgerbasic")]
    configs = [(e1.name(i), e1.flags(i)) for i in insts]
    cov = grids.run_grids(ctx, "grid_c18.cpp", "G18", configs, ["--nmax", "4096" if q else "100000"],
                          lambda f: re.sub(r"\d+", "#", f.split("|")[0] + "|" + f.split("|")[-1]),
                          "one evaluation = one append (checked against the running bounds) or one reserve call; distinct non-trivial = scenarios (start state x configuration) in which at least one reallocation happened / reserve calls that had to grow")
    return ctx.finish("exploration", cov, ["allocator calls are counted by the ledger allocators; relocated elements = live elements at each capacity change (and move constructions for the non-relocatable element type)",
                                             "bounds exactly as stated in the property: reallocations <= 2*ceil(log2 n)+4 and relocations <= 6n+16 at every n; growth step >= ceil(1.5*cap) unless clamped by size_type"])
