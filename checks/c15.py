#!/usr/bin/env python3
"""C15 -- amc:: memory algorithms equal the standard ones, with clean-up on throw.

Family: bounded exhaustive exploration with fault enumeration (no sampling).

  explorer    src/c15/c15.cpp (+ types.hpp, impls.hpp, harness.hpp), ONE C++11-compatible program.  Nested loops over
              algorithm x source iterator kind x destination kind x element type x length 0..maxlen x fault index
              0..E, E = number of throwing-constructor events of the fault-free execution, so that every throw point
              of every configuration is visited.  See the header of c15.cpp for what is compared and what is not.
  oracle      inside the explorer: a reference implementation written from the wording of [specialized.algorithms]
              (relocate = move-construct then destroy the source) and std:: itself where the selected standard library
              has the algorithm.  The element ledger of src/elems.hpp reports leaks, double destroys, operations on
              dead objects and byte copies of non-relocatable objects; canary bytes surround the raw destination.
  builds      memory.hpp picks a different implementation per language level, so the explorer is compiled for each of
              -std=c++11/14/17/20.  One -std= is compiled as nine translation-unit variants (-DC15_PART=0..8, one
              element type each) only because a single unit takes minutes to compile under the sanitizers; the
              union of the parts is the whole enumeration.  thorough adds -O2 builds without UBSan for C++11/14 (what
              a user's optimised build does with the function lacking a return statement) and clang++ builds.
  crash       the explorer forks per group of cases; a child killed by a sanitizer report or a signal is a failure of
              the case it had announced, and exploration resumes behind that case.
  replay      <binary> --case "<case id>" re-executes exactly one case.  Every failure is replayed once here before
              it is reported; only failures that reproduce become violations.
"""
import json
import os
import shlex
import sys

HERE = os.path.dirname(os.path.dirname(os.path.abspath(__file__)))
if os.path.join(HERE, "lib") not in sys.path:
    sys.path.insert(0, os.path.join(HERE, "lib"))
import vlib  # noqa: E402

SRC = "c15/c15.cpp"
STDS = ["c++11", "c++14", "c++17", "c++20"]
# element type -> translation-unit variant (array types go with their element type); mirrors register_groups()
PARTS = {"int": 0, "TC4": 1, "TCN": 2, "TR": 3, "NTR": 4, "NTRX": 5, "NTRXMO": 6, "TDCA": 7, "ILT": 8}

# -g1: line tables for the sanitizer reports; full -g doubles the compile time of this template-heavy unit.
SAN_FLAGS = ["-O1", "-g1", "-fsanitize=address", "-fsanitize=return,unreachable,null,alignment",
             "-fno-sanitize-recover=all", "-fno-omit-frame-pointer"]
O2_FLAGS = ["-O2", "-g1", "-fsanitize=address", "-fno-omit-frame-pointer"]


def part_of_case(case):
    """Translation-unit variant that contains a case id  <algo>|<src>|<dst>|<type>|n=..|k=.."""
    return PARTS[case.split("|")[3].split("[")[0]]


def configurations(tier):
    """(std, opt label, compiler, flags) of every build of the tier."""
    cfgs = [(s, "O1", "g++", SAN_FLAGS) for s in STDS]
    if tier == "thorough":
        cfgs += [(s, "O2", "g++", O2_FLAGS) for s in ("c++11", "c++14")]
        cfgs += [(s, "O1", "clang++", SAN_FLAGS) for s in STDS]
    return cfgs


def build_part(std, opt, cxx, flags, part):
    fl = ["-std=" + std] + list(flags) + ["-DC15_PART=%d" % part]
    tag = "c15-%s-%s-%s-p%d" % (std.replace("+", "x"), opt, cxx.replace("+", "x"), part)
    return vlib.build(SRC, fl, tag, cxx=cxx), fl


def classify(msg):
    if msg.startswith("CRASH"):
        return "crash"
    if "lifetime violation" in msg or "leak" in msg or "bitwise duplicate" in msg:
        return "lifetime"
    if "assignment operator call" in msg:
        return "assignment"
    if "outside [dest" in msg:
        return "overwrite"
    return "mismatch"


def run(ctx):
    maxlen = 3 if ctx.tier == "quick" else 5
    cfgs = configurations(ctx.tier)
    jobs = [(std, opt, cxx, flags, part) for (std, opt, cxx, flags) in cfgs for part in sorted(set(PARTS.values()))]

    def job(j):
        std, opt, cxx, flags, part = j
        binary, fl = build_part(std, opt, cxx, flags, part)
        rc, out, err = vlib.run([binary, "--maxlen", str(maxlen)], timeout=600)
        if rc not in (0, 1):
            raise RuntimeError("c15 explorer %s failed: rc=%s\n%s" % (binary, rc, err[-2000:]))
        rep = json.loads(out)
        if (rc == 1) != (rep["failure_total"] > 0):
            raise RuntimeError("c15 explorer %s: exit code %d contradicts failure_total %d" % (binary, rc, rep["failure_total"]))
        return dict(std=std, opt=opt, cxx=cxx, part=part, binary=binary, flags=fl, rep=rep)

    results = vlib.pmap(job, jobs)  # compile-bound: builds of all standards and parts run in parallel

    # ---- failures -> violations (one per signature, after one confirming replay) ---------------------------------
    by_sig = {}
    harness_trouble = []
    for r in results:
        for f in r["rep"]["failures"]:
            if "HARNESS" in f["msg"]:
                harness_trouble.append("%s %s %s: %s :: %s" % (r["std"], r["opt"], r["cxx"], f["case"], f["msg"]))
                continue
            algo, _, _, typ = f["case"].split("|")[:4]
            # six fields always (known-finding patterns match field by field); the compiler rides in the opt field
            build = r["opt"] if r["cxx"] == "g++" else "%s.%s" % (r["opt"], r["cxx"].replace("+", ""))
            sig = "c15|std=%s|%s|%s|%s|%s" % (r["std"], build, algo, typ, classify(f["msg"]))
            ent = by_sig.setdefault(sig, dict(r=r, first=f, cases=[]))
            ent["cases"].append(f["case"])
            if "|n=0|" in ent["first"]["case"] and "|n=0|" not in f["case"]:
                ent["first"] = f  # a non-empty range makes the more telling representative
    if harness_trouble:
        # the reference / std worlds do not depend on amc: if they misbehave the harness is wrong, not the library
        raise RuntimeError("C15 oracle self-check failed:\n" + "\n".join(harness_trouble[:10]))

    def confirm(item):
        sig, ent = item
        r, f = ent["r"], ent["first"]
        cmd = [r["binary"], "--case", f["case"]]
        rc, out, err = vlib.run(cmd, timeout=300)
        again = []
        if rc == 1:
            again = [x for x in json.loads(out)["failures"] if x["case"] == f["case"]]
        return sig, ent, cmd, rc, again

    for sig, ent, cmd, rc, again in vlib.pmap(confirm, sorted(by_sig.items())):
        r, f = ent["r"], ent["first"]
        if not again:
            ctx.notes.append("not reproduced on replay (rc=%s), dropped: %s :: %s" % (rc, f["case"], f["msg"]))
            continue
        cxx_cmd = " ".join(shlex.quote(x) for x in
                           [r["cxx"]] + r["flags"] + ["-I", vlib.INC, "-I", vlib.SRC, os.path.join(vlib.SRC, SRC), "-o", r["binary"]])
        run_cmd = " ".join(shlex.quote(x) for x in cmd)
        replay = {
            "std": r["std"], "opt": r["opt"], "cxx": r["cxx"], "part": r["part"], "flags": r["flags"], "case": f["case"],
            # the build cache prunes binaries of older harness/header contents: rebuild when the binary is gone
            "cmd": "( test -x %s || %s ) && %s" % (shlex.quote(r["binary"]), cxx_cmd, run_cmd),
            "replay_current_tree": "python3 %s --replay <this file>" % os.path.abspath(__file__),
            "expected": "exit status 1 and the case listed under \"failures\"",
            "same_signature_cases": sorted(set(ent["cases"]))[:20],
        }
        what = "%s [%s %s %s] %s" % (f["case"], r["std"], r["opt"], r["cxx"], "; ".join(x["msg"] for x in again[:3]))
        ctx.violation(sig, replay, what)

    # ---- coverage ------------------------------------------------------------------------------------------------
    per_build = {}
    by_algo = {}
    samples = []
    for r in results:
        key = "%s/%s/%s" % (r["std"], r["opt"], r["cxx"])
        pb = per_build.setdefault(key, dict(evaluations=0, distinct_nontrivial=0, algorithm_executions=0, failing_cases=0))
        pb["evaluations"] += r["rep"]["evaluations"]
        pb["distinct_nontrivial"] += r["rep"]["distinct_nontrivial"]
        pb["algorithm_executions"] += r["rep"]["world_runs"]
        pb["failing_cases"] += len(set(f["case"] for f in r["rep"]["failures"]))
        for a, n in r["rep"]["by_algorithm"].items():
            by_algo[a] = by_algo.get(a, 0) + n
        if r["opt"] == "O1" and r["cxx"] == "g++":
            samples += ["%s: %s" % (r["std"], s) for s in r["rep"]["samples"][:1]]
    coverage = {
        "evaluations": sum(p["evaluations"] for p in per_build.values()),
        "distinct_nontrivial": sum(p["distinct_nontrivial"] for p in per_build.values()),
        "algorithm_executions": sum(p["algorithm_executions"] for p in per_build.values()),
        "exhaustive": True,
        "max_length": maxlen,
        "builds": len(results),
        "rule": ("nested loops, no sampling: build (-std=, optimisation, compiler) x algorithm (22 forms of the 17 "
                 "algorithms) x source iterator kind (T*, const T*, int* into another type, vector/deque/list/"
                 "forward_list iterator, move_iterator of each, and the random-access-but-not-contiguous kinds "
                 "reverse_iterator<T*>, reverse_iterator<vector::iterator>, deque iterator over a range verified to "
                 "cross a block boundary) x destination kind (T*, non-pointer forward iterator, reverse_iterator<T*> "
                 "over raw storage; the reverse destination with T*/vector/list and the three non-contiguous sources) "
                 "x element type (int, TC4 trivial, TCN trivially copyable with non-trivial default "
                 "ctor, TDCA trivially default constructible but not trivial, TR declared relocatable, NTR self-pointer, NTRX "
                 "throwing move, NTRXMO move-only with throwing move (no copying algorithm); E[2], E[2][2] for the array "
                 "forms; ILT, whose constructors (int,int) / initializer_list / (int) / (int,int,int) tell direct from "
                 "list initialisation, for construct_at(p, args...) over 13 argument-pack shapes and for 11 "
                 "emplace_back/emplace scenarios of amc::vector, SmallVector<2>, FixedCapacityVector<4> against "
                 "std::vector) x length 0..max_length x fault index k=0..E with E measured on the fault-free run.  One "
                 "evaluation = one (build, case) executed in the amc world and compared with the reference world "
                 "(and the std world where available).  distinct_nontrivial counts the evaluations with length > 0; "
                 "they are pairwise distinct because the loops never repeat a tuple."),
        "samples": samples[:12],
        "per_build": per_build,
        "by_algorithm": by_algo,
    }
    assumptions = [
        "g++ 12 / clang++ 14 with libstdc++ 12; other standard libraries select other std:: code in C++17/20 mode",
        "ranges do not overlap and lengths are non-negative (precondition of the std algorithms); lengths <= %d" % maxlen,
        "throws come from constructors only (value, default, copy; move for NTRX); destructors do not throw",
        "where memory.hpp says `using std::x` (C++17: all but construct_at, C++20: all) amc IS libstdc++: the std world "
        "is a tautology there and the reference world is the oracle",
        "array forms exist per language level as found by compiling them: construct_at(E(*)[N], E(&&)[N]) and its const "
        "copying twin in C++11/14/17 (nested arrays C++11/14 only; the copying twin does not compile for trivially "
        "copyable E), construct_at(E(*)[N]) in C++20 only, destroy_at(E(*)[N]) in C++11/14/20",
        "not compared: number of constructor calls, bytes of destroyed slots, value of default-initialised trivial types; "
        "the number of assignment-operator calls IS observed and must be 0 (every destination is raw storage)",
    ]
    return ctx.finish("fault_enumeration", coverage, assumptions)


def _replay_main(path):
    """Re-run the case of a replay file against the CURRENT tree (rebuilds through the cache); exit 1 if it fails."""
    with open(path) as fh:
        rp = json.load(fh)
    binary = vlib.build(SRC, rp["flags"], "c15-replay-p%d" % rp["part"], cxx=rp["cxx"])
    rc, out, err = vlib.run([binary, "--case", rp["case"]], timeout=300)
    sys.stdout.write(out)
    return rc


if __name__ == "__main__":
    if len(sys.argv) == 3 and sys.argv[1] == "--replay":
        sys.exit(_replay_main(sys.argv[2]))
    sys.stderr.write("usage: c15.py --replay <replays/C15-*.json>   (the check itself runs through bin/check C15)\n")
    sys.exit(2)
