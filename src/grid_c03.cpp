// C03 -- bulk paths of FlatSet beyond the small scope of the history explorer: sets and ranges of up to 40 elements under
// a comparator coarser than identity (classes of 4 values), where WHICH of several equivalent elements survives is
// observable.  std::sort is only incidentally stable up to 16 elements; above that an implementation that lets an
// incoming element displace a held one, or that forgets the held part when sorting, is visible here and nowhere else.
//   -DC03_VEC 0 amc::vector | 1 SmallVector<int,4> | 2 FixedCapacityVector<int,96> | 3 std::vector   -DC03_CMP 0 asc | 1 desc
// Grid: held classes n in 0..NMAX x range length m in 0..NMAX x class window offset {0, n/2, n} x order of the range
// {ascending, descending, stride 3, stride 7, zig-zag} x in-range duplicates {no, yes} x operation
// {insert(forward range), insert(single-pass range), range constructor, FlatSet(vector&&), operator=(vector&&), merge}.
// Oracle: std::set with the same comparator.  A held element always stays (specified); among several equivalent elements
// of ONE range the standard leaves the choice unspecified (LWG 2844), so any of them is accepted there.
#include <amc/fixedcapacityvector.hpp>
#include <amc/flatset.hpp>
#include <amc/smallset.hpp>
#include <amc/smallvector.hpp>
#include <amc/vector.hpp>

#include <algorithm>
#include <cstdio>
#include <set>
#include <string>
#include <vector>

#ifndef C03_VEC
#define C03_VEC 0
#endif
#ifndef C03_CMP
#define C03_CMP 0
#endif

struct Coarse4 {
  bool operator()(int a, int b) const {
#if C03_CMP == 0
    return a / 4 < b / 4;
#else
    return b / 4 < a / 4;
#endif
  }
};
#if C03_VEC == 0
typedef amc::vector<int> UV;
#elif C03_VEC == 1
typedef amc::SmallVector<int, 4> UV;
#elif C03_VEC == 2
typedef amc::FixedCapacityVector<int, 96> UV;
#else
typedef std::vector<int, amc::allocator<int> > UV;
#endif
#ifndef C03_KIND
#define C03_KIND 0
#endif
#if C03_KIND == 0
typedef amc::FlatSet<int, Coarse4, UV::allocator_type, UV> FS;
#elif C03_KIND == 1
// C04: the same grid through a SmallSet<int, 4> whose large representation is that FlatSet (the first elements go through
// the inline path, the rest of the range is handed to the backing set in one call) ...
typedef amc::SmallSet<int, 4, Coarse4, UV::allocator_type, amc::FlatSet<int, Coarse4, UV::allocator_type, UV> > FS;
#else
// ... or a std::set
typedef amc::SmallSet<int, 4, Coarse4, amc::allocator<int> > FS;
#endif
typedef std::set<int, Coarse4> MS;

template <class T>
struct SP {  // single-pass iterator over a vector
  typedef std::input_iterator_tag iterator_category;
  typedef T value_type;
  typedef std::ptrdiff_t difference_type;
  typedef const T *pointer;
  typedef const T &reference;
  const std::vector<T> *v;
  size_t i;
  SP(const std::vector<T> *vv, size_t ii) : v(vv), i(ii) {}
  reference operator*() const { return (*v)[i]; }
  SP &operator++() {
    ++i;
    return *this;
  }
  SP operator++(int) {
    SP t = *this;
    ++i;
    return t;
  }
  bool operator==(const SP &o) const { return i == o.i; }
  bool operator!=(const SP &o) const { return i != o.i; }
};

static long g_eval = 0, g_nontrivial = 0, g_big = 0;
static std::vector<std::string> g_fail, g_sigs, g_samples;
static std::string g_only;
static void fail(const std::string &id, const std::string &msg) {
  std::string sig = id.substr(0, id.find('|')) + "|";
  for (char c : msg) sig += (c >= '0' && c <= '9') ? '#' : c;
  for (size_t i = 0; i < g_sigs.size(); ++i)
    if (g_sigs[i] == sig) return;
  if (g_fail.size() >= 40) return;
  g_sigs.push_back(sig);
  g_fail.push_back(id + "|" + msg);
}

static std::vector<int> held_values(int n) {
  std::vector<int> r;
  for (int c = 0; c < n; ++c) r.push_back(4 * c + (c * 7 + 1) % 4);
  return r;
}
/// class indices of the range in the requested order
static std::vector<int> order_of(int m, int off, int kind) {
  std::vector<int> r;
  for (int i = 0; i < m; ++i) {
    int j;
    switch (kind) {
      case 0: j = i; break;
      case 1: j = m - 1 - i; break;
      case 2: j = (int)((3L * i) % m); break;                     // a permutation when gcd(3, m) == 1, repeats otherwise
      case 3: j = (int)((7L * i + 2) % m); break;
      default: j = (i % 2) ? m - 1 - i / 2 : i / 2; break;        // zig-zag
    }
    r.push_back(off + j);
  }
  return r;
}
static std::string seq(const std::vector<int> &v) {
  std::string s;
  for (size_t i = 0; i < v.size() && i < 60; ++i) s += (i ? " " : "") + std::to_string(v[i]);
  return s;
}

enum Op { INS_FWD, INS_INPUT, CTOR_RANGE, CTOR_VEC, ASSIGN_VEC, MERGE, OPS };
static const char *opn[] = {"insert_forward_range", "insert_input_range", "range_constructor", "from_vector", "assign_vector", "merge"};

static void point(int op, int n, int m, int off, int kind, int dup) {
  char id[160];
  std::snprintf(id, sizeof id, "%s|n=%d|m=%d|off=%d|order=%d|dup=%d", opn[op], n, m, off, kind, dup);
  if (!g_only.empty() && g_only != id) return;
  const std::vector<int> held = held_values(n);
  std::vector<int> range;
  {
    std::vector<int> cls = order_of(m, off, kind);
    for (size_t i = 0; i < cls.size(); ++i) {
      range.push_back(4 * cls[i] + (int)((i * 5 + 2) % 4));
      if (dup) range.push_back(4 * cls[i] + (int)((i * 5 + 3) % 4));  // an equivalent, different element right behind
    }
  }
  const bool from_scratch = op == CTOR_RANGE || op == CTOR_VEC || op == ASSIGN_VEC;  // the old contents play no role
  // the reference: std::set; acceptable[c] = the members of class c that may represent it afterwards
  MS ms;
  if (!from_scratch) ms.insert(held.begin(), held.end());
  std::vector<std::vector<int> > acceptable(200);
  if (!from_scratch)
    for (size_t i = 0; i < held.size(); ++i) acceptable[held[i] / 4].push_back(held[i]);  // a held element always stays
  for (size_t i = 0; i < range.size(); ++i) {
    const int c = range[i] / 4;
    const bool was_held = !from_scratch && c < n;
    if (!was_held) acceptable[c].push_back(range[i]);  // class not held before: any offered member (LWG 2844)
  }
  ms.insert(range.begin(), range.end());
  FS fs;
  FS other;
  try {
    switch (op) {
      case INS_FWD:
        fs.insert(held.begin(), held.end());
        fs.insert(range.begin(), range.end());
        break;
      case INS_INPUT:
        fs.insert(held.begin(), held.end());
        fs.insert(SP<int>(&range, 0), SP<int>(&range, range.size()));
        break;
      case CTOR_RANGE: fs = FS(range.begin(), range.end()); break;
#if C03_KIND == 0
      case CTOR_VEC: {
        UV v(range.begin(), range.end());
        fs = FS(std::move(v));
      } break;
      case ASSIGN_VEC: {
        fs.insert(held.begin(), held.end());
        UV v(range.begin(), range.end());
        fs = std::move(v);
      } break;
#endif
      case MERGE: {
        fs.insert(held.begin(), held.end());
        other = FS(range.begin(), range.end());
        fs.merge(other);
      } break;
    }
  } catch (const std::exception &e) {
    fail(id, std::string("unexpected exception: ") + e.what());
    return;
  }
  ++g_eval;
  if (n + (int)range.size() > 16) ++g_big;
  if (dup || (off < n && m > 0)) ++g_nontrivial;
  if (op == MERGE) {
    // the source keeps exactly the classes that were blocked by a held element
    std::set<int> blocked;
    for (size_t i = 0; i < range.size(); ++i)
      if (range[i] / 4 < n) blocked.insert(range[i] / 4);
    std::set<int> left;
    for (FS::const_iterator it = other.begin(); it != other.end(); ++it) left.insert(*it / 4);
    if (left != blocked || other.size() != blocked.size()) fail(id, "merge: the source keeps " + std::to_string(other.size()) + " elements, expected the " + std::to_string(blocked.size()) + " blocked ones");
  }
  std::vector<int> got(fs.begin(), fs.end()), want(ms.begin(), ms.end());
  if (C03_KIND != 0) std::stable_sort(got.begin(), got.end(), Coarse4());  // an inline SmallSet iterates in insertion order
  if (got.size() != want.size()) {
    fail(id, "size " + std::to_string(got.size()) + ", std::set has " + std::to_string(want.size()) + " [" + seq(got) + "] vs [" + seq(want) + "]");
    return;
  }
  for (size_t i = 0; i < got.size(); ++i) {
    if (got[i] / 4 != want[i] / 4) {
      fail(id, "position " + std::to_string(i) + " holds class " + std::to_string(got[i] / 4) + ", std::set has class " + std::to_string(want[i] / 4));
      return;
    }
    const std::vector<int> &acc = acceptable[got[i] / 4];
    if (std::find(acc.begin(), acc.end(), got[i]) == acc.end()) {
      const bool heldc = !from_scratch && got[i] / 4 < n;
      fail(id, std::string(heldc ? "an incoming element displaced the equivalent element the set already held" : "holds an element that was never offered") + ": position " + std::to_string(i) +
                   " is " + std::to_string(got[i]) + ", std::set keeps " + std::to_string(want[i]));
      return;
    }
  }
  if (g_samples.size() < 4 && n + (int)range.size() > 30 && dup && off < n && kind == 3 && (g_eval % 13) == 0) g_samples.push_back(std::string(id) + " -> [" + seq(got) + "]");
}

int main(int argc, char **argv) {
  int NMAX = 24;
  for (int a = 1; a + 1 < argc; ++a) {
    if (std::string(argv[a]) == "--nmax") NMAX = std::atoi(argv[a + 1]);
    if (std::string(argv[a]) == "--case") g_only = argv[a + 1];
  }
  const int cap = C03_VEC == 2 ? 96 : 1 << 20;
  for (int op = 0; op < OPS; ++op) {
    if (C03_KIND != 0 && (op == CTOR_VEC || op == ASSIGN_VEC)) continue;
    for (int n = 0; n <= NMAX; ++n)
      for (int m = 0; m <= NMAX; ++m)
        for (int oi = 0; oi < 3; ++oi) {
          const int off = oi == 0 ? 0 : oi == 1 ? n / 2 : n;
          if (oi == 1 && n / 2 == 0) continue;
          if (oi == 2 && n == 0) continue;
          for (int kind = 0; kind < 5; ++kind)
            for (int dup = 0; dup < 2; ++dup) {
              if (n + m * (1 + dup) > cap) continue;
              point(op, n, m, off, kind, dup);
            }
        }
  }
  std::printf("{\"evaluations\":%ld,\"distinct_nontrivial\":%ld,\"above_16_elements\":%ld,\"nmax\":%d,\"failures\":[", g_eval, g_nontrivial, g_big, NMAX);
  for (size_t i = 0; i < g_fail.size(); ++i) std::printf("%s\"%s\"", i ? "," : "", g_fail[i].c_str());
  std::printf("],\"samples\":[");
  for (size_t i = 0; i < g_samples.size(); ++i) std::printf("%s\"%s\"", i ? "," : "", g_samples[i].c_str());
  std::printf("]}\n");
  return g_fail.empty() ? 0 : 1;
}
