"""C02 -- elements destroyed exactly once and relocated only as allowed: E1 (vectors) and E2 (sets), monitor 'life'."""
from checks import e1, e2


def run(ctx):
    q = ctx.tier == "quick"
    vm = [i for i in (e1.quick_matrix() if q else e1.thorough_matrix()) if e1.relevant("C02", i)]
    cov = e1.explore(ctx, vm, ["C02"])
    sm = [i for i in ((e2.flat_quick() + e2.small_quick()) if q else (e2.flat_thorough() + e2.small_thorough())) if e2.relevant("C02", i)]
    cov2 = e1.explore(ctx, sm, ["C02"], engine="E2", eng=e2.ENG)
    return ctx.finish("model_checking", e1.merge_cov(cov, cov2), e1.ASSUME + e2.ASSUME[1:])
