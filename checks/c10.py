"""C10 -- arguments referring to the vector's own elements behave as if copied first.  The aliasing forms
(push_back(v[s]), emplace_back(v[s]), insert(p, v[s]), insert(p, n, v[s]), emplace(p, v[s]), resize(n, v[s]),
assign(n, v[s]), append(n, v[s])) are part of E1's alphabet: every position p, source index s, count 0..3 from every
reachable state (so: exactly full, one spare slot, ample spare, inline and heap) -- compared with std::vector."""
import json

import vlib
from checks import e1


def matrix(q):
    I = e1.inst
    o = ["--few-ranges", "--no-ctors", "--no-menu"]
    L = 5 if q else 6
    m = [
        I("small", 2, "TC4", L=L, opts=o),
        I("small", 3, "NTR", alloc="ledgerstd", L=L, opts=o),
        I("small", 2, "TR", st="uint8_t", alloc="ledgerrealloc", L=L, opts=o),
        I("vector", 0, "NTR", alloc="ledgerstd", L=L, opts=o),
        I("vector", 0, "TC12", st="uint16_t", L=L, opts=o),
        I("fixed", 5, "NTR", st="uint8_t", L=5, opts=o),
        I("fixed", 4, "TR", st="uint8_t", L=4, opts=o),
    ]
    if not q:
        m += [I("small", 1, "PTN", L=5, opts=o), I("small", 5, "TC1", st="int16_t", L=6, opts=o), I("vector", 0, "TR", alloc="ledgerrealloc", L=6, opts=o),
              I("fixedu", 4, "TC4", st="uint8_t", L=4, opts=o), I("small", 3, "PTT", alloc="ledgerbasic", L=6, opts=o)]
    return m


def run(ctx):
    # every oracle counts on an aliasing call: reading the argument after it was destroyed or moved-from (a lifetime
    # failure) is exactly "not handled as if copied first", even when the value still looks right
    cov = e1.explore(ctx, matrix(ctx.tier == "quick"), ["C10"], any_fail_on_ops=r"_ALIAS$")
    # large indices: vectors of 60..250 elements (thorough: 32 770 with a 16-bit size_type) whose size_type is narrow, so
    # that a source index exceeds the maximum of the SIGNED type of the same width (grid_c10.cpp)
    I = e1.inst
    gm = [I("vector", 0, "TC4", st="uint8_t", alloc="ledgerstd"), I("small", 3, "NTR", st="uint8_t", alloc="ledgerstd"),
          I("small", 2, "TR", st="int8_t", alloc="ledgerstd"), I("vector", 0, "NTR", st="int8_t", alloc="ledgerstd")]
    if ctx.tier != "quick":
        gm += [I("vector", 0, "TC4", st="uint16_t", alloc="ledgerstd"), I("small", 5, "TC12", st="uint8_t", alloc="ledgerstd"),
               I("vector", 0, "TR", st="uint8_t", alloc="ledgerstd"), I("small", 2, "PTN", st="uint8_t", alloc="ledgerstd")]
    args = [] if ctx.tier == "quick" else ["--thorough"]
    bins = vlib.pmap(lambda i: vlib.build("grid_c10.cpp", e1.flags(i), "g10-" + e1.name(i)), gm)

    def run_grid(ib):
        i, binp = ib
        rc, out, err = vlib.run([binp] + args, timeout=max(120, ctx.time_left() - 60))
        try:
            return i, binp, json.loads(out), err
        except ValueError:
            return i, binp, None, err

    gpoints = ghigh = 0
    for i, binp, res, err in vlib.pmap(run_grid, list(zip(gm, bins))):
        if res is None:
            ctx.violation("G10|%s|%s|crash" % (i["flavour"], e1._vcat(i)), {"engine": "grid_c10", "instantiation": i, "stderr": err[-2000:], "cmd": " ".join([binp] + args)},
                          "grid_c10 died: " + (err.strip().split("\n") or [""])[-1][:200])
            continue
        gpoints += res["evaluations"]
        ghigh += res["source_index_above_signed_max"]
        for f in res["failures"]:
            parts = f.split("|")
            case = "|".join(parts[:5])
            rc2, _, _ = vlib.run([binp] + args + ["--case", case], timeout=300)
            if rc2 == 0:
                raise RuntimeError("grid failure did not reproduce: " + f)
            ctx.violation("G10|%s|%s|%s|%s" % (i["flavour"], e1._vcat(i), parts[0], e1.norm(parts[-1])),
                          {"engine": "grid_c10", "instantiation": i, "case": case, "observed": parts[-1], "cmd": "%s %s --case '%s'" % (binp, " ".join(args), case)}, f)
    cov["large_index_grid_points"] = gpoints
    cov["large_index_grid_points_source_above_signed_max"] = ghigh
    al = ("PUSH_ALIAS", "EMPLACE_BACK_ALIAS", "INS_ALIAS", "INS_N_ALIAS", "EMPLACE_ALIAS", "RESIZE_ALIAS", "ASSIGN_ALIAS", "APPEND_ALIAS")
    return ctx.finish("model_checking", cov, e1.ASSUME + ["aliasing transitions are those of kinds " + ", ".join(al)])
