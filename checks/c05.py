"""C05 -- inline-storage promise: E1 (FixedCapacityVector, SmallVector) and E2 (SmallSet), monitor 'inline'."""
from checks import e1, e2


def run(ctx):
    q = ctx.tier == "quick"
    vm = [i for i in (e1.quick_matrix() if q else e1.thorough_matrix()) if e1.relevant("C05", i)]
    cov = e1.explore(ctx, vm, ["C05"])
    cov2 = e1.explore(ctx, e2.small_quick() if q else e2.small_thorough(), ["C05"], engine="E2", eng=e2.ENG)
    return ctx.finish("model_checking", e1.merge_cov(cov, cov2), e1.ASSUME + e2.ASSUME[1:])
