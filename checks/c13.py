"""C13 -- swap2 between any two vector flavours: BFS over a heterogeneous pair (explore_swap2.cpp)."""
import vlib
from checks import e1

FL = {"vector": 0, "small": 1, "fixed": 2}
AL = {"amc": 0, "std": 1, "ledgerstd": 2, "ledgerrealloc": 3}
# operand configurations: (flavour, N, size_type, allocator)
CONF = {
    "vec32": ("vector", 0, "uint32_t", "ledgerstd"),
    "vec8": ("vector", 0, "uint8_t", "ledgerstd"),
    "vecstd": ("vector", 0, "uint32_t", "std"),
    "sv2": ("small", 2, "uint32_t", "ledgerstd"),
    "sv3_8": ("small", 3, "uint8_t", "ledgerstd"),
    "sv5_16": ("small", 5, "uint16_t", "ledgerstd"),
    "fcv3": ("fixed", 3, "uint8_t", "amc"),
    "fcv5": ("fixed", 5, "uint8_t", "amc"),
}
ELEMS = e1.ELEMS


def inst(a, b, elem, L=4, big=None):
    o = []
    if big:
        o = ["--big", ",".join(str(x) for x in big)]
    return dict(a=a, b=b, elem=elem, K=2, L=L, opts=o, reloc=0)


def name(i):
    return "swap2-%s-%s-%s" % (i["a"], i["b"], i["elem"])


def flags(i):
    fa, fb = CONF[i["a"]], CONF[i["b"]]
    return ["-std=c++17", "-O1", "-g1", "-fno-access-control", "-w", "-DAMC_NONSTD_FEATURES", "-DCFG_ELEM=%d" % ELEMS[i["elem"]],
            "-DA_FLAVOUR=%d" % FL[fa[0]], "-DA_N=%d" % fa[1], "-DA_ST=%s" % fa[2], "-DA_ALLOC=%d" % AL[fa[3]],
            "-DB_FLAVOUR=%d" % FL[fb[0]], "-DB_N=%d" % fb[1], "-DB_ST=%s" % fb[2], "-DB_ALLOC=%d" % AL[fb[3]]] + vlib.SAN


def build(i):
    return vlib.build("explore_swap2.cpp", flags(i), "sw-" + name(i))


ENG = e1.Eng("E1s", build, name, lambda i: {"TC4": "TC", "TC300": "TC", "TR": "TR", "NTR": "NTR"}[i["elem"]], lambda i: i["a"] + "x" + i["b"])


def run(ctx):
    q = ctx.tier == "quick"
    if q:
        pairs = [("sv3_8", "sv5_16", "TC4"), ("sv2", "sv2", "NTR"), ("sv2", "vec32", "TR"), ("vec8", "vec32", "TC4"), ("fcv3", "sv5_16", "NTR"),
                 ("sv2", "fcv3", "TR"), ("vec32", "vecstd", "NTR"), ("fcv3", "fcv5", "TC4"), ("sv5_16", "vec8", "TR"), ("vec32", "fcv5", "NTR"),
                 ("sv3_8", "fcv5", "TC300"), ("sv2", "sv5_16", "TC300")]  # 300-byte elements: element-wise exchange of wide objects
        m = [inst(a, b, el, L=4) for a, b, el in pairs]
        m.append(inst("vec8", "vec32", "TC4", L=2, big=[250, 255, 256, 300]))
        m.append(inst("sv3_8", "sv5_16", "TC4", L=2, big=[255, 256]))
        # a fixed-capacity operand (8-bit size_type) against sizes whose low byte fits its N: the size must not be narrowed
        m.append(inst("fcv3", "vec32", "TC4", L=2, big=[255, 256, 258]))
        m.append(inst("sv5_16", "fcv5", "TC4", L=2, big=[256, 260]))
    else:
        names = list(CONF)
        elems = ["TC4", "TR", "NTR"]
        m = []
        n = 0
        for a in names:
            for b in names:
                m.append(inst(a, b, elems[n % 3], L=6 if ("fcv" in a or "fcv" in b) else 5))
                n += 1
        m += [inst(a, b, "TC300", L=5) for a, b in (("sv3_8", "fcv5"), ("sv2", "sv5_16"), ("fcv3", "fcv5"), ("vec32", "sv2"), ("fcv5", "vec8"))]
        for a, b in (("vec8", "vec32"), ("vec32", "vec8"), ("sv3_8", "sv5_16"), ("sv3_8", "vec32"), ("vec8", "sv2"), ("vec8", "vec8")):
            m.append(inst(a, b, "TC4", L=2, big=[250, 254, 255, 256, 300]))
        for a, b in (("fcv3", "vec32"), ("vec32", "fcv5"), ("fcv5", "sv5_16"), ("sv5_16", "fcv3"), ("fcv3", "fcv5")):
            m.append(inst(a, b, "TC4", L=2, big=[255, 256, 257, 259, 261, 512, 515]))
    cov = e1.explore(ctx, m, ["C13"], engine="E1s", eng=ENG)
    cov["bound"] = "every reachable pair state (size, capacity, inline/heap incl. adopted small buffers) with sizes <= L, plus sizes around the 8-bit limit; both swap2 directions"
    return ctx.finish("model_checking", cov, ["real headers are the transition function; states keyed by (size, capacity, inline?) of both operands (element values are data independent)",
                                               "limit of a fixed vector = N, of a dynamic one = max of its size_type; always-equal allocators; noexcept element moves"])
