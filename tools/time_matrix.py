#!/usr/bin/env python3
"""time_matrix.py <module.function> [deadline_s]: run every instantiation of a matrix function once (16 in parallel) and
print wall time / states / transitions / completeness, slowest first.  Used to size the thorough matrices."""
import importlib, json, sys, time
sys.path.insert(0, "/verif"); sys.path.insert(0, "/verif/lib")
import vlib
from checks import e1, e2
modname, fn = sys.argv[1].rsplit(".", 1)
mod = importlib.import_module(modname)
dl = int(sys.argv[2]) if len(sys.argv) > 2 else 900
matrix = getattr(mod, fn)()
eng = e2.ENG if modname.endswith("e2") else e1.E1ENG
def one(i):
    t = time.time()
    info = e1.run_one(i, dl, eng)
    r = info["res"] or {}
    return (time.time() - t, eng.name(i), i["K"], i["L"], r.get("states"), r.get("transitions"), r.get("complete"), info["rc"])
rows = vlib.pmap(one, sorted(matrix, key=lambda i: -i.get("K", 1) * 100 - i.get("L", 0)))
for r in sorted(rows, reverse=True):
    print("%7.1fs %-50s K=%d L=%d states=%s trans=%s complete=%s rc=%s" % r)
print("total cpu %.0fs, instances %d" % (sum(r[0] for r in rows), len(rows)))
