// Alphabet of the vector explorer: operation encoding, enabledness (from the reference model), names.  C++17.
#pragma once
#include <sstream>

#include "vec_rt.hpp"

namespace ops {
using namespace rt;

#define VOPS(X)                                                                                                     \
  X(PUSH_C) X(PUSH_M) X(EMPLACE_BACK) X(POP) X(POPVAL) X(INS_C) X(INS_M) X(EMPLACE) X(INS_N) X(INS_RANGE) X(INS_IL) \
  X(ERASE) X(ERASE_R) X(RESIZE) X(RESIZE_V) X(ASSIGN_N) X(ASSIGN_RANGE) X(ASSIGN_IL) X(OPEQ_IL) X(CLEAR) X(RESERVE) \
  X(SHRINK) X(APPEND_N) X(APPEND_NV) X(APPEND_RANGE) X(APPEND_IL)                                                   \
  X(PUSH_ALIAS) X(EMPLACE_BACK_ALIAS) X(INS_ALIAS) X(INS_N_ALIAS) X(EMPLACE_ALIAS) X(RESIZE_ALIAS) X(ASSIGN_ALIAS)  \
  X(APPEND_ALIAS)                                                                                                   \
  X(SELF_COPY_ASSIGN) X(SELF_MOVE_ASSIGN) X(SELF_SWAP) X(MOVE_CTOR_SELF) X(COPY_CTOR_SELF)                           \
  X(COPY_ASSIGN) X(MOVE_ASSIGN) X(SWAP_MEMBER) X(SWAP_FREE) X(COPY_CONSTRUCT) X(MOVE_CONSTRUCT)                     \
  X(COPY_ASSIGN_T) X(MOVE_ASSIGN_T) X(SWAP_T) X(MOVE_CTOR_T) X(COPY_CTOR_T)                                         \
  X(CTOR_COUNT) X(CTOR_COUNT_V) X(CTOR_RANGE) X(CTOR_IL) X(ERASE_VAL) X(ERASE_IF_GT)

enum Kind {
#define X(n) n,
  VOPS(X)
#undef X
      KIND_COUNT
};
inline const char *kind_name(int k) {
  static const char *names[] = {
#define X(n) #n,
      VOPS(X)
#undef X
  };
  return k >= 0 && k < KIND_COUNT ? names[k] : "?";
}
inline int kind_from(const std::string &s) {
  for (int k = 0; k < KIND_COUNT; ++k)
    if (s == kind_name(k)) return k;
  return -1;
}

struct Op {
  int k = 0, i = 0, j = 0, a = 0, b = 0, c = 0;
  int f = 0;  // fault index: the f-th throwing event inside this operation throws (0 = none)
};
inline std::string op_str(const Op &o) {
  char buf[112];
  if (o.f) std::snprintf(buf, sizeof buf, "%s:%d:%d:%d:%d:%d:!%d", kind_name(o.k), o.i, o.j, o.a, o.b, o.c, o.f);
  else std::snprintf(buf, sizeof buf, "%s:%d:%d:%d:%d:%d", kind_name(o.k), o.i, o.j, o.a, o.b, o.c);
  return buf;
}
inline bool op_parse(const std::string &s, Op &o) {
  std::vector<std::string> f;
  std::stringstream ss(s);
  std::string t;
  while (std::getline(ss, t, ':')) f.push_back(t);
  if (f.size() != 6 && f.size() != 7) return false;
  o.f = f.size() == 7 ? std::atoi(f[6].c_str() + (f[6][0] == '!' ? 1 : 0)) : 0;
  o.k = kind_from(f[0]);
  if (o.k < 0) return false;
  o.i = std::atoi(f[1].c_str());
  o.j = std::atoi(f[2].c_str());
  o.a = std::atoi(f[3].c_str());
  o.b = std::atoi(f[4].c_str());
  o.c = std::atoi(f[5].c_str());
  return true;
}
inline std::string hist_str(const std::vector<Op> &h) {
  std::string s;
  for (size_t x = 0; x < h.size(); ++x) {
    if (x) s += ' ';
    s += op_str(h[x]);
  }
  return s;
}

// position class for signatures
inline const char *pos_class(int p, int size) { return size == 0 ? "empty" : p == 0 ? "begin" : p >= size ? "end" : "mid"; }

// ---- temporaries built by fixed recipes (operand menu) ----------------------------------------------------------
//  0 empty | 1 one element | 2 exactly N elements (inline exactly full) | 3 reserve(N+1) then one element (heap, size<=N)
//  4 N+1 elements (heap, size>N) | 5 N+1 elements then clear (heap emptied) | 6 adopted heap buffer with capacity 1 (<N)
//  7 SmallVector(vector&&) from an empty vector without buffer | 8 from an empty vector that owns a buffer
//  9 from a vector with one element and spare capacity N+2
constexpr int RECIPES = 10;
inline const char *recipe_name(int r) {
  static const char *n[] = {"empty", "one", "fullN", "heap-small", "heap-big", "heap-emptied", "adopted-small", "adopted-nothing", "adopted-empty-buffer", "adopted-spare"};
  return r >= 0 && r < RECIPES ? n[r] : "?";
}
/// size of the temporary, or -1 if the recipe does not exist for this instantiation
inline int recipe_size(int r) {
  switch (r) {
    case 0: return 0;
    case 1: return (kFixed && N < 1) ? -1 : 1;
    case 2: return N >= 2 ? N : -1;  // N==1 coincides with recipe 1
    case 3: return kDyn ? 1 : -1;
    case 4: return kDyn ? N + 1 : -1;
    case 5: return kDyn ? 0 : -1;
    case 6: return (kSmall && N >= 2) ? 1 : -1;
    case 7: return kSmall ? 0 : -1;
    case 8: return kSmall ? 0 : -1;
    case 9: return kSmall ? 1 : -1;
  }
  return -1;
}
inline bool recipe_entitled(int r) { return !(r == 3 || r == 4 || r == 5 || r == 6 || r == 8 || r == 9); }  // 7 adopts no buffer

struct World {
  int K = 1;  // pool size
  int L = 4;  // size bound
  Slot slot[MAXK];
  MS m[MAXK];
};

struct Opts {
  bool ranges_all = true;   // all range sources (else ptr + input + list)
  bool menu = true;         // operand menu of temporaries
  bool alias = true;        // aliasing forms
  bool ctors = true;        // constructor forms
  bool overlimit = true;    // over-capacity calls on throwing FixedCapacityVector
  bool extras = true;       // AMC_NONSTD_FEATURES operations (append, pop_back_val)
};

inline void enumerate(const World &w, const Opts &o, std::vector<Op> &out) {
  out.clear();
  const int cntmax = 3;
  static const int few_src[] = {S_PTR, S_INPUT, S_LIST, S_MOVE_PTR, S_CONV};
  for (int i = 0; i < w.K; ++i) {
    const int sz = (int)w.m[i].v.size();
    // growth allowed up to lim; for throwing fixed vectors also calls that exceed N (expected to throw)
    const int lim = kFixed ? std::min(w.L, N) : w.L;
    const int over = (kFixedThrow && o.overlimit) ? N + 2 : lim;
    auto ok = [&](int ns) { return ns <= lim || (ns > N && ns <= over && kFixedThrow && o.overlimit); };
    auto add = [&](int k, int a = 0, int b = 0, int c = 0, int j = 0) {
      Op op;
      op.k = k; op.i = i; op.j = j; op.a = a; op.b = b; op.c = c;
      out.push_back(op);
    };
    if (ok(sz + 1)) {
      add(PUSH_C); add(PUSH_M); add(EMPLACE_BACK);
      for (int p = 0; p <= sz; ++p) { add(INS_C, p); add(INS_M, p); add(EMPLACE, p); }
      if (o.alias)
        for (int s = 0; s < sz; ++s) {
          add(PUSH_ALIAS, s); add(EMPLACE_BACK_ALIAS, s);
          for (int p = 0; p <= sz; ++p) { add(INS_ALIAS, p, s); add(EMPLACE_ALIAS, p, s); }
        }
    }
    if (sz > 0) {
      add(POP);
      if (o.extras) add(POPVAL);
      for (int p = 0; p < sz; ++p) add(ERASE, p);
    }
    for (int a = 0; a <= sz; ++a)
      for (int b = a; b <= sz; ++b) add(ERASE_R, a, b);
    for (int n = 0; n <= cntmax; ++n) {
      if (ok(sz + n)) {
        for (int p = 0; p <= sz; ++p) {
          add(INS_N, p, n);
          add(INS_IL, p, n);
          if (o.ranges_all) for (int s = 0; s < S_COUNT_VEC; ++s) add(INS_RANGE, p, n, s);
          else for (int s : few_src) add(INS_RANGE, p, n, s);
          if (o.alias) for (int s = 0; s < sz; ++s) add(INS_N_ALIAS, p, n, s);
        }
        if (o.extras) {
          add(APPEND_N, n); add(APPEND_NV, n); add(APPEND_IL, n);
          if (o.ranges_all) for (int s = 0; s < S_COUNT_VEC; ++s) add(APPEND_RANGE, n, s);
          else for (int s : few_src) add(APPEND_RANGE, n, s);
          if (o.alias) for (int s = 0; s < sz; ++s) add(APPEND_ALIAS, n, s);
        }
      }
    }
    for (int n = 0; n <= std::max(lim, over); ++n) {
      if (!ok(n)) continue;
      if (n > cntmax + 1 && n <= lim && n != sz + 1) continue;  // keep the menu of absolute sizes small
      add(RESIZE, n); add(RESIZE_V, n); add(ASSIGN_N, n);
      if (o.alias) for (int s = 0; s < sz; ++s) { add(RESIZE_ALIAS, n, s); add(ASSIGN_ALIAS, n, s); }
      if (n <= cntmax) {
        add(ASSIGN_IL, n); add(OPEQ_IL, n);
        if (o.ranges_all) for (int s = 0; s < S_COUNT_VEC; ++s) add(ASSIGN_RANGE, n, s);
        else for (int s : few_src) add(ASSIGN_RANGE, n, s);
        if (o.ctors) {
          add(CTOR_COUNT, n); add(CTOR_COUNT_V, n); add(CTOR_IL, n);
          if (o.ranges_all) for (int s = 0; s < S_COUNT_VEC; ++s) add(CTOR_RANGE, n, s);
          else for (int s : few_src) add(CTOR_RANGE, n, s);
        }
      }
    }
    add(CLEAR);
    add(SHRINK);
    for (int n = 0; n <= (kFixed ? (kFixedThrow && o.overlimit ? N + 1 : N) : w.L + 1); ++n) add(RESERVE, n);
    add(SELF_COPY_ASSIGN); add(SELF_MOVE_ASSIGN); add(SELF_SWAP); add(MOVE_CTOR_SELF); add(COPY_CTOR_SELF);
    add(MOVE_CTOR_SELF, 1); add(COPY_CTOR_SELF, 1);  // allocator-extended forms V(V&&, alloc), V(const V&, alloc)
#if __cplusplus >= 202002L
    for (int s = 0; s < sz; ++s) { add(ERASE_VAL, s); add(ERASE_IF_GT, s); }
#endif
    for (int j = 0; j < w.K; ++j) {
      if (j == i) continue;
      const int sj = (int)w.m[j].v.size();
      if (sj <= lim) { add(COPY_ASSIGN, 0, 0, 0, j); add(MOVE_ASSIGN, 0, 0, 0, j); add(COPY_CONSTRUCT, 0, 0, 0, j); add(MOVE_CONSTRUCT, 0, 0, 0, j); }
      if (i < j) { add(SWAP_MEMBER, 0, 0, 0, j); add(SWAP_FREE, 0, 0, 0, j); }
    }
    if (o.menu)
      for (int r = 0; r < RECIPES; ++r) {
        int rs = recipe_size(r);
        if (rs < 0 || rs > lim) continue;
        add(COPY_ASSIGN_T, r); add(MOVE_ASSIGN_T, r); add(SWAP_T, r); add(MOVE_CTOR_T, r); add(COPY_CTOR_T, r);
      }
  }
}

}  // namespace ops
