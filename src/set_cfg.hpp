// Instantiation of the set explorer, selected by -D macros.  C++17.
//   CFG_KIND  0 FlatSet | 1 SmallSet
//   CFG_N     SmallSet inline capacity
//   CFG_ELEM  4 int | 20 TR | 21 NTR
//   CFG_CMP   0 less | 1 greater | 2 coarse (a/2 < b/2) | 3 stateful (mod m; default-constructed instance differs and
//             is flagged) | 4 transparent less<> with heterogeneous double keys (int elements only)
//   CFG_VEC   FlatSet underlying vector: 0 amc::vector | 1 SmallVector<T,2> | 2 FixedCapacityVector<T,8> | 3 std::vector | 4 FixedCapacityVector<T,3>
//   CFG_BACK  SmallSet backing set: 0 std::set | 1 FlatSet
//   CFG_ALLOC 0 amc::allocator | 2 LedgerStd
//   CFG_KEYS  size of the key domain {0..k-1}
#pragma once
#include <amc/fixedcapacityvector.hpp>
#include <amc/flatset.hpp>
#include <amc/smallset.hpp>
#include <amc/smallvector.hpp>
#include <amc/vector.hpp>

#include <functional>
#include <set>
#include <vector>

#include "allocs.hpp"
#include "elems.hpp"

#ifndef CFG_KIND
#define CFG_KIND 0
#endif
#ifndef CFG_N
#define CFG_N 2
#endif
#ifndef CFG_ELEM
#define CFG_ELEM 4
#endif
#ifndef CFG_CMP
#define CFG_CMP 0
#endif
#ifndef CFG_VEC
#define CFG_VEC 0
#endif
#ifndef CFG_BACK
#define CFG_BACK 0
#endif
#ifndef CFG_ALLOC
#define CFG_ALLOC 0
#endif
#ifndef CFG_KEYS
#define CFG_KEYS 4
#endif

namespace scfg {
#if CFG_ELEM == 4
typedef int32_t T;
#elif CFG_ELEM == 20
typedef vf::TR T;
#elif CFG_ELEM == 21
typedef vf::NTR T;
#else
#error bad CFG_ELEM
#endif
typedef vf::El<T> E;
constexpr int N = CFG_N;
constexpr int KEYS = CFG_KEYS;
constexpr bool kSmallSet = CFG_KIND == 1;
constexpr bool kFlat = CFG_KIND == 0;

inline long g_default_cmp_calls = 0;  // calls made through a DEFAULT-CONSTRUCTED stateful comparator
inline long g_cmp_calls = 0;

template <class X>
inline int valof(const X &x) {
  if constexpr (std::is_arithmetic<X>::value) return static_cast<int>(x);
  else return vf::El<X>::val(x);
}

struct Coarse {
  template <class A, class B>
  bool operator()(const A &a, const B &b) const {
    ++g_cmp_calls;
    return valof(a) / 2 < valof(b) / 2;
  }
};
/// Stateful: orders by value modulo m.  A default-constructed instance (m == 0) orders by plain value -- i.e.
/// differently -- and every call through it is counted: the container must only ever use the object it was given.
struct ModCmp {
  int m;
  ModCmp() : m(0) {}
  explicit ModCmp(int mm) : m(mm) {}
  template <class A, class B>
  bool operator()(const A &a, const B &b) const {
    ++g_cmp_calls;
    if (m == 0) {
      ++g_default_cmp_calls;
      return valof(a) < valof(b);
    }
    return valof(a) % m < valof(b) % m;
  }
};
struct LessCnt {
  template <class A, class B>
  bool operator()(const A &a, const B &b) const {
    ++g_cmp_calls;
    return valof(a) < valof(b);
  }
};

/// Not relocatable: reads its state through a pointer to itself (and is not trivially copyable).  A set holding it must
/// not claim trivially_relocatable; if it does and is relocated, comparisons go through the stale pointer.
struct SelfCmp {
  const SelfCmp *self;
  int dir;
  SelfCmp() : self(this), dir(1) {}
  SelfCmp(const SelfCmp &o) : self(this), dir(o.dir) {}
  SelfCmp &operator=(const SelfCmp &o) {
    dir = o.dir;
    return *this;
  }
  template <class A, class B>
  bool operator()(const A &a, const B &b) const {
    ++g_cmp_calls;
    return self->dir > 0 ? valof(a) < valof(b) : valof(b) < valof(a);
  }
};

/// heterogeneous key equivalent to a RUN of elements: every element v with v / 2 == b
struct Bucket {
  int b;
};
/// transparent comparator (int elements): arithmetic keys compare by value (like std::less<>), Bucket keys by v / 2
struct TransCmp {
  typedef void is_transparent;
  template <class A, class B, typename std::enable_if<std::is_arithmetic<A>::value && std::is_arithmetic<B>::value, bool>::type = true>
  bool operator()(const A &a, const B &b) const {
    ++g_cmp_calls;
    return a < b;
  }
  template <class A, typename std::enable_if<std::is_arithmetic<A>::value, bool>::type = true>
  bool operator()(const A &a, Bucket k) const {
    ++g_cmp_calls;
    return static_cast<int>(a) / 2 < k.b;
  }
  template <class A, typename std::enable_if<std::is_arithmetic<A>::value, bool>::type = true>
  bool operator()(Bucket k, const A &a) const {
    ++g_cmp_calls;
    return k.b < static_cast<int>(a) / 2;
  }
};

#if CFG_CMP == 0
typedef std::less<T> Cmp;
typedef std::less<int> MCmp;
constexpr const char *kCmpName = "less";
inline Cmp make_cmp() { return Cmp(); }
inline MCmp make_mcmp() { return MCmp(); }
#elif CFG_CMP == 1
typedef std::greater<T> Cmp;
typedef std::greater<int> MCmp;
constexpr const char *kCmpName = "greater";
inline Cmp make_cmp() { return Cmp(); }
inline MCmp make_mcmp() { return MCmp(); }
#elif CFG_CMP == 2
typedef Coarse Cmp;
typedef Coarse MCmp;
constexpr const char *kCmpName = "coarse";
inline Cmp make_cmp() { return Cmp(); }
inline MCmp make_mcmp() { return MCmp(); }
#elif CFG_CMP == 3
typedef ModCmp Cmp;
typedef ModCmp MCmp;
constexpr const char *kCmpName = "stateful";
inline Cmp make_cmp() { return Cmp(3); }
inline MCmp make_mcmp() { return MCmp(3); }
#elif CFG_CMP == 4
typedef TransCmp Cmp;
typedef TransCmp MCmp;
constexpr const char *kCmpName = "transparent";
inline Cmp make_cmp() { return Cmp(); }
inline MCmp make_mcmp() { return MCmp(); }
#elif CFG_CMP == 5
typedef SelfCmp Cmp;
typedef SelfCmp MCmp;
constexpr const char *kCmpName = "selfptr";
inline Cmp make_cmp() { return Cmp(); }
inline MCmp make_mcmp() { return MCmp(); }
#endif
constexpr bool kStateful = CFG_CMP == 3;
constexpr bool kTransparent = CFG_CMP == 4;

#if CFG_ALLOC == 0
typedef amc::allocator<T> Alloc;
constexpr bool kLedgerAlloc = false;
constexpr const char *kAllocName = "amc";
#else
typedef vf::LedgerStd<T> Alloc;
constexpr bool kLedgerAlloc = true;
constexpr const char *kAllocName = "ledgerstd";
#endif

#if CFG_VEC == 0
typedef amc::vector<T, Alloc> UVec;
constexpr const char *kVecName = "amcvector";
#elif CFG_VEC == 1
typedef amc::SmallVector<T, 2, Alloc> UVec;
constexpr const char *kVecName = "smallvector2";
#elif CFG_VEC == 2
typedef amc::FixedCapacityVector<T, 8> UVec;
constexpr const char *kVecName = "fixed8";
#elif CFG_VEC == 4
// smaller than the key domain: the set meets a FULL underlying vector (std::out_of_range out of insertions)
typedef amc::FixedCapacityVector<T, 3> UVec;
constexpr const char *kVecName = "fixed3";
#else
typedef std::vector<T, Alloc> UVec;
constexpr const char *kVecName = "stdvector";
#endif

#if CFG_VEC == 2 || CFG_VEC == 4
typedef amc::vec::EmptyAlloc FAlloc;
#else
typedef Alloc FAlloc;
#endif
/// capacity of a fixed underlying vector (0: it grows)
constexpr int kFixedCap = (CFG_KIND == 0 && CFG_VEC == 2) ? 8 : (CFG_KIND == 0 && CFG_VEC == 4) ? 3 : 0;
typedef amc::FlatSet<T, Cmp, FAlloc, UVec> Flat;

#if CFG_KIND == 0
typedef Flat S;
constexpr const char *kKindName = "flatset";
// a FlatSet of the same element type but another comparator, for merge(FlatSet<T,C2,...>&)
typedef std::conditional<CFG_CMP == 1, std::less<T>, std::greater<T> >::type OtherCmp;
typedef amc::FlatSet<T, OtherCmp, FAlloc, UVec> OtherS;
#else
typedef std::conditional<CFG_CMP == 1, std::less<T>, std::greater<T> >::type OtherCmp;
typedef std::conditional<CFG_CMP == 1, std::less<int>, std::greater<int> >::type OtherMCmp;
#if CFG_BACK == 0
typedef std::set<T, Cmp, Alloc> Back;
constexpr const char *kBackName = "stdset";
typedef amc::SmallSet<T, CFG_N, Cmp, Alloc, Back> S;
typedef amc::SmallSet<T, CFG_N + 1, Cmp, Alloc, Back> OtherS;  // other N, same backing type (merge template)
// other comparator (and other N): merge(SmallSet<T, N2, C2, Alloc, SetType2>&)
typedef amc::SmallSet<T, (CFG_N > 1 ? CFG_N - 1 : 2), OtherCmp, Alloc, std::set<T, OtherCmp, Alloc> > OtherS2;
#else
typedef amc::FlatSet<T, Cmp, Alloc, amc::vector<T, Alloc> > Back;
constexpr const char *kBackName = "flatset";
typedef amc::SmallSet<T, CFG_N, Cmp, Alloc, Back> S;
typedef amc::SmallSet<T, CFG_N + 1, Cmp, Alloc, Back> OtherS;
typedef amc::SmallSet<T, (CFG_N > 1 ? CFG_N - 1 : 2), OtherCmp, Alloc, amc::FlatSet<T, OtherCmp, Alloc, amc::vector<T, Alloc> > > OtherS2;
#endif
constexpr int kOther2N = (CFG_N > 1 ? CFG_N - 1 : 2);
constexpr const char *kKindName = "smallset";
#endif

typedef std::set<int, MCmp> Model;
}  // namespace scfg
