"""C10 -- arguments referring to the vector's own elements behave as if copied first.  The aliasing forms
(push_back(v[s]), emplace_back(v[s]), insert(p, v[s]), insert(p, n, v[s]), emplace(p, v[s]), resize(n, v[s]),
assign(n, v[s]), append(n, v[s])) are part of E1's alphabet: every position p, source index s, count 0..3 from every
reachable state (so: exactly full, one spare slot, ample spare, inline and heap) -- compared with std::vector."""
from checks import e1


def matrix(q):
    I = e1.inst
    o = ["--few-ranges", "--no-ctors", "--no-menu"]
    L = 5 if q else 6
    m = [
        I("small", 2, "TC4", L=L, opts=o),
        I("small", 3, "NTR", alloc="ledgerstd", L=L, opts=o),
        I("small", 2, "TR", st="uint8_t", alloc="ledgerrealloc", L=L, opts=o),
        I("vector", 0, "NTR", alloc="ledgerstd", L=L, opts=o),
        I("vector", 0, "TC12", st="uint16_t", L=L, opts=o),
        I("fixed", 5, "NTR", st="uint8_t", L=5, opts=o),
        I("fixed", 4, "TR", st="uint8_t", L=4, opts=o),
    ]
    if not q:
        m += [I("small", 1, "PTN", L=5, opts=o), I("small", 5, "TC1", st="int16_t", L=6, opts=o), I("vector", 0, "TR", alloc="ledgerrealloc", L=6, opts=o),
              I("fixedu", 4, "TC4", st="uint8_t", L=4, opts=o), I("small", 3, "PTT", alloc="ledgerbasic", L=6, opts=o)]
    return m


def run(ctx):
    # every oracle counts on an aliasing call: reading the argument after it was destroyed or moved-from (a lifetime
    # failure) is exactly "not handled as if copied first", even when the value still looks right
    cov = e1.explore(ctx, matrix(ctx.tier == "quick"), ["C10"], any_fail_on_ops=r"_ALIAS$")
    al = ("PUSH_ALIAS", "EMPLACE_BACK_ALIAS", "INS_ALIAS", "INS_N_ALIAS", "EMPLACE_ALIAS", "RESIZE_ALIAS", "ASSIGN_ALIAS", "APPEND_ALIAS")
    return ctx.finish("model_checking", cov, e1.ASSUME + ["aliasing transitions are those of kinds " + ", ".join(al)])
