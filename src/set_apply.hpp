// apply() of the set explorer: one operation on the real set and on std::set, with the per-operation oracles of
// C03/C04 (returned booleans, counts, positions, node ownership), C11 (iterator contract), C05 (SmallSet), C12.
#pragma once
#include "set_ops.hpp"

namespace sops {

inline const char *PT() { return kFlat ? "C03" : "C04"; }
inline const char *PTH() { return kFlat ? "C03,C12" : "C04"; }
inline const char *PTI() { return kFlat ? "C03" : "C11,C04"; }

inline T mk(int key) { return E::make(key); }

template <class C = Cmp>
inline C cmp_for(int mask) {
  if constexpr (std::is_same<C, ModCmp>::value) return (mask & 1) ? C(2) : C(3);
  else return make_cmp();
}
template <class C = MCmp>
inline C mcmp_for(int mask) {
  if constexpr (std::is_same<C, ModCmp>::value) return (mask & 1) ? C(2) : C(3);
  else return make_mcmp();
}

/// iterator returned by an erase at (iteration) position p
template <class SetT>
inline void chk_erase_it_t(const SetT &s, const typename SetT::const_iterator &r, int p, const char *nm) {
  if constexpr (std::is_pointer<typename SetT::const_iterator>::value && kFlat) {
    long idx = r - s.begin();
    if (idx != p) vf::fail(PT(), "%s: returned position %ld, std::set returns the element at %d", nm, idx, p);
  } else if constexpr (kFlat) {
    long idx = std::distance(s.begin(), r);
    if (idx != p) vf::fail(PT(), "%s: returned position %ld, std::set returns the element at %d", nm, idx, p);
  } else {
    if (!(r == s.end())) {
      bool found = false;
      for (auto it = s.begin(); it != s.end(); ++it)
        if (it == r) found = true;
      if (!found) vf::fail("C11,C04", "%s: returned iterator is neither end() nor an iterator to a remaining element", nm);
    }
  }
}

template <class SetT>
inline typename SetT::const_iterator iter_at(const SetT &s, int p) {
  auto it = s.begin();
  std::advance(it, p);
  return it;
}

/// values of the real set as a sorted multiset of ints (for set-wise comparison)
template <class SetT>
inline std::vector<int> sorted_vals(const SetT &s) {
  std::vector<int> r;
  for (auto it = s.begin(); it != s.end(); ++it) r.push_back(E::val(*it));
  std::sort(r.begin(), r.end());
  return r;
}
template <class M>
inline std::vector<int> sorted_model(const M &m) {
  std::vector<int> r(m.begin(), m.end());
  std::sort(r.begin(), r.end());
  return r;
}

/// C05 (SmallSet): no heap request while no involved set has ever held more than N elements
inline void chk_noalloc(bool applies, const char *nm) {
  if (!kSmallSet || !applies || W().exc) return;
  if (W().mallocs != 0) vf::fail("C05", "%s: %ld malloc calls although the set never held more than N elements", nm, W().mallocs);
  if (W().alloc_calls != 0) vf::fail("C05", "%s: %ld allocator calls although the set never held more than N elements", nm, W().alloc_calls);
}

template <class SetT, class M>
inline void fill_keys(SetT &t, M &tm, const std::vector<int> &keys) {
  for (int k : keys) {
    t.insert(mk(k));
    tm.insert(k);
  }
}

/// std::set::merge semantics: attempt to transfer each element of the source, IN THE SOURCE'S ITERATION ORDER, into the
/// target.  The order matters only when two source elements are equivalent under the target's comparator; an inline
/// SmallSet iterates in an unspecified (insertion) order, so the order actually exposed by the real source is used.
template <class M, class M2>
inline void model_merge(M &m, M2 &src, const std::vector<int> &order) {
  for (int v : order) {
    if (m.insert(v).second) {
      auto it = src.find(v);
      if (it != src.end() && *it == v) src.erase(it);
    }
  }
}

/// check a node after insert(node): empty iff it was inserted (or was empty to begin with); otherwise it still
/// owns the value it came with
template <class NodeT>
inline void chk_node(const NodeT &nh, bool had, bool inserted, int value, const char *nm) {
  if (!had) {
    if (!nh.empty()) vf::fail(PT(), "%s: an empty node handle became non-empty", nm);
    return;
  }
  if (inserted) {
    if (!nh.empty()) vf::fail(PT(), "%s: node still owns a value after a successful insert", nm);
  } else {
    if (nh.empty()) vf::fail(PT(), "%s: insert(node) met an equivalent element and the node lost its value (std::set: the node keeps it)", nm);
    else if (E::val(nh.value()) != value) vf::fail(PT(), "%s: node value changed to %d (expected %d)", nm, E::val(nh.value()), value);
  }
}

template <class C>
inline MCmp mcmp_like(const C &c) {
  if constexpr (std::is_same<C, ModCmp>::value) return MCmp(c.m);
  else return make_mcmp();
}

/// After an injected fault the sets must be consistent (checked by observe() and the ledgers); the models are
/// re-read from them (basic guarantee: contents unspecified but valid) so that exploration continues from there.
/// the FULL fixed-capacity vector under a FlatSet refused an insertion (std::out_of_range): like an injected fault, the
/// set must stay a valid set (checked by the observers after the model has been re-read from it)
inline bool capfault() { return kFixedCap > 0 && W().exc && W().exc_kind == 1; }

/// C09: after a failed merge the SOURCE is a container like any other: consistent size, every visible element alive and
/// not moved-from
template <class SetT>
inline void chk_source_after_fault(const SetT &t, const char *nm) {
  if (!faulted() && !capfault()) return;
  long n = 0;
  for (auto it = t.begin(); it != t.end() && n < 64; ++it, ++n) {
    const char *why = nullptr;
    if (!E::sane(*it, &why)) vf::fail("C09", "%s failed and left its source with element %ld: %s", nm, n, why);
  }
  if (n != (long)t.size()) vf::fail("C09", "%s failed and left its source with size %ld but %ld reachable elements", nm, (long)t.size(), n);
}

inline void fault_epilogue(World &w) {
  for (int x = 0; x < w.K; ++x) {
    S &s = w.slot[x].s();
    w.m[x].emplace(mcmp_like(s.key_comp()));
    long n = 0;
    for (auto it = s.begin(); it != s.end() && n < 64; ++it, ++n) w.m[x]->insert(E::val(*it));
    w.big[x] = true;  // C05 is not quantified over faults
  }
}

inline void apply(World &w, const Op &op) {
  const char *nm = kind_name(op.k);
  const int i = op.i;
  Slot &SL = w.slot[i];
  S *sp = &SL.s();
#define SS (*sp)
  Model &m = *w.m[i];
  const int sz = (int)m.size();
  const bool big0 = w.big[i];
  auto upd_big = [&](int x) {
    if ((int)w.m[x]->size() > N) w.big[x] = true;
  };
#define FCHK if (faulted() || capfault()) goto fault_done
  g_cur_fault = op.f;
  auto unexpected = [&] {
    if (W().exc) vf::fail(PT(), "%s: unexpected exception (kind %d)", nm, W().exc_kind);
  };
  // iterator returned by an insertion: must designate the element equivalent to `want`
  auto chk_it = [&](bool is_end, int got, int want, const char *tags) {
    if (is_end) vf::fail(tags, "%s: returned iterator is end() but should designate %d", nm, want);
    else if (got != want) vf::fail(tags, "%s: returned iterator designates %d, std::set's designates %d", nm, got, want);
  };
  auto chk_erase_it = [&](const typename S::const_iterator &r, int p) { chk_erase_it_t<S>(SS, r, p, nm); };
  auto replace = [&](int s, auto &&ctor) {
    Slot &R = w.slot[s];
    R.s().~S();
    R.alive = false;
    win([&] { ctor(R.raw()); });
    if (W().exc) ::new (R.raw()) S(make_cmp());
    R.alive = true;
  };
  auto build_temp = [&](int mask, std::optional<S> &t, Model &tm) {
    t.emplace(cmp_for(mask));
    fill_keys(*t, tm, mask_keys(mask));
  };

  switch (op.k) {
    case INSERT_C:
    case INSERT_M:
    case EMPLACE: {
      const int key = op.a;
      T t = mk(key);
      bool ins = false, is_end = true;
      int got = -1;
      win([&] {
        auto r = op.k == INSERT_C ? SS.insert(static_cast<const T &>(t)) : op.k == INSERT_M ? SS.insert(std::move(t)) : SS.emplace(std::move(t));
        ins = r.second;
        is_end = r.first == SS.end();
        if (!is_end) got = E::val(*r.first);
      });
      FCHK; unexpected();
      auto mr = m.insert(key);
      if (ins != mr.second) vf::fail(PT(), "%s(%d): inserted=%d, std::set says %d", nm, key, (int)ins, (int)mr.second);
      chk_it(is_end, got, *mr.first, PTI());
      upd_big(i);
      chk_noalloc(!big0 && !w.big[i], nm);
    } break;
    case HINT_C:
    case HINT_M:
    case EMPLACE_HINT: {
      const int h = op.a, key = op.b;
      T t = mk(key);
      auto hint = iter_at(SS, h);
      bool is_end = true;
      int got = -1;
      win([&] {
        auto r = op.k == HINT_C ? SS.insert(hint, static_cast<const T &>(t)) : op.k == HINT_M ? SS.insert(hint, std::move(t)) : SS.emplace_hint(hint, std::move(t));
        is_end = r == SS.end();
        if (!is_end) got = E::val(*r);
      });
      FCHK; unexpected();
      auto mr = m.insert(key);
      chk_it(is_end, got, *mr.first, kFlat ? "C03,C12" : "C11,C04");
      upd_big(i);
      chk_noalloc(!big0 && !w.big[i], nm);
    } break;
    case INSERT_RANGE:
    case INSERT_IL: {
      std::vector<int> keys = seq_decode(op.a);
      if (op.k == INSERT_RANGE) {
        with_range_t<T>(op.b, keys, [&](auto f, auto l) { win([&] { SS.insert(f, l); }); });
      } else {
        T a = mk(keys.size() > 0 ? keys[0] : 0), b = mk(keys.size() > 1 ? keys[1] : 0), c = mk(keys.size() > 2 ? keys[2] : 0);
        win([&] {
          if (keys.size() == 0) SS.insert(std::initializer_list<T>{});
          else if (keys.size() == 1) SS.insert({a});
          else if (keys.size() == 2) SS.insert({a, b});
          else SS.insert({a, b, c});
        });
      }
      FCHK; unexpected();
      for (int k : keys) m.insert(k);
      upd_big(i);
      chk_noalloc(!big0 && !w.big[i], nm);
    } break;
    case ERASE_KEY: {
      const int key = op.a;
      T t = mk(key);
      long got = -1;
      win([&] { got = (long)SS.erase(static_cast<const T &>(t)); });
      FCHK; unexpected();
      long want = (long)m.erase(key);
      if (got != want) vf::fail(PT(), "erase(%d) returned %ld, std::set returns %ld", key, got, want);
      chk_noalloc(!big0, nm);
    } break;
    case ERASE_POS: {
      const int p = op.a;
      auto it = iter_at(SS, p);
      const int key = E::val(*it);
      typename S::const_iterator r = SS.end();
      win([&] { r = SS.erase(it); });
      FCHK; unexpected();
      m.erase(key);
      chk_erase_it(r, p);
      chk_noalloc(!big0, nm);
    } break;
    case ERASE_RANGE: {
      const int a = op.a, b = op.b;
      auto ia = iter_at(SS, a), ib = iter_at(SS, b);
      std::vector<int> gone;
      for (auto it = ia; it != ib; ++it) gone.push_back(E::val(*it));
      typename S::const_iterator r = SS.end();
      win([&] { r = SS.erase(ia, ib); });
      FCHK; unexpected();
      for (int k : gone) m.erase(k);
      chk_erase_it(r, a);
      chk_noalloc(!big0, nm);
    } break;
    case CLEAR:
      win([&] { SS.clear(); });
      FCHK; unexpected();
      m.clear();
      chk_noalloc(!big0, nm);
      break;
    case ERASE_LOOP: {
      // the canonical erase-while-iterating loop; predicate = membership in mask
      const int mask = op.a;
      int visited[KEYS + 8];
      int nv = 0;
      bool runaway = false;
      win([&] {
        int steps = 0;
        for (auto it = SS.begin(); it != SS.end();) {
          if (++steps > sz + 2) {
            runaway = true;
            break;
          }
          int v = E::val(*it);
          if (nv < KEYS + 8) visited[nv++] = v;
          if (v >= 0 && v < KEYS && (mask >> v & 1)) it = SS.erase(it);
          else ++it;
        }
      });
      FCHK; unexpected();
      if (runaway) vf::fail(PTI(), "erase-while-iterating loop did not terminate within size+2 steps (stale iterator)");
      std::vector<int> vis(visited, visited + nv);
      std::sort(vis.begin(), vis.end());
      if (!runaway && vis != sorted_model(m)) vf::fail(PTI(), "erase-while-iterating loop did not visit every element exactly once (%d visits for %d elements)", nv, sz);
      for (int k = 0; k < KEYS; ++k)
        if (mask >> k & 1) {
          // erase by value (not by equivalence): the loop removed exactly the elements whose value is in the mask
          auto it = m.find(k);
          if (it != m.end() && *it == k) m.erase(it);
        }
      chk_noalloc(!big0, nm);
    } break;
    case ERASE_IF: {
#if __cplusplus >= 202002L
      const int mask = op.a;
      long got = -1, want = 0;
      win([&] { got = (long)erase_if(SS, [&](const T &e) { int v = E::val(e); return v >= 0 && v < KEYS && (mask >> v & 1); }); });
      FCHK; unexpected();
      for (int k = 0; k < KEYS; ++k)
        if (mask >> k & 1) {
          auto it = m.find(k);
          if (it != m.end() && *it == k) {
            m.erase(it);
            ++want;
          }
        }
      if (got != want) vf::fail(PT(), "erase_if returned %ld, expected %ld", got, want);
#endif
    } break;
    case EXTRACT_KEY_INS:
    case EXTRACT_POS_INS:
    case EXTRACT_KEY_INS_HINT:
    case NODE_FROM_TEMP:
    case NODE_FROM_TEMP_HINT:
    case EMPTY_NODE_INS: {
      typename S::node_type nh;
      bool had = false;
      int value = -1;
      int j = i;
      bool use_hint = op.k == EXTRACT_KEY_INS_HINT || op.k == NODE_FROM_TEMP_HINT;
      int hpos = 0;
      if (op.k == EXTRACT_KEY_INS || op.k == EXTRACT_KEY_INS_HINT) {
        const int key = op.a;
        j = op.j;
        hpos = op.b;
        T t = mk(key);
        win([&] { nh = SS.extract(static_cast<const T &>(t)); });
        FCHK; unexpected();
        auto mit = m.find(key);
        had = mit != m.end();
        if (had) {
          value = *mit;
          m.erase(mit);
        }
        if (nh.empty() == had) vf::fail(PT(), "extract(%d): node empty=%d but std::set %s the key", key, (int)nh.empty(), had ? "holds" : "does not hold");
        else if (had && E::val(nh.value()) != value) vf::fail(PT(), "extract(%d) gave %d, std::set gives %d", key, E::val(nh.value()), value);
        chk_noalloc(!big0, nm);
      } else if (op.k == EXTRACT_POS_INS) {
#if 1
        j = op.j;
        auto it = iter_at(SS, op.a);
        value = E::val(*it);
        had = true;
        win([&] { nh = SS.extract(it); });
        FCHK; unexpected();
        m.erase(value);
        if (nh.empty()) vf::fail(PT(), "extract(position) returned an empty node");
        else if (E::val(nh.value()) != value) vf::fail(PT(), "extract(position) gave %d, expected %d", E::val(nh.value()), value);
        chk_noalloc(!big0, nm);
#else
        break;
#endif
      } else if (op.k == NODE_FROM_TEMP || op.k == NODE_FROM_TEMP_HINT) {
        const int key = op.a;
        hpos = op.b;
        S tmp(make_cmp());
        tmp.insert(mk(key));
        T t = mk(key);
        nh = tmp.extract(static_cast<const T &>(t));
        had = !nh.empty();
        value = key;
        if (!had) vf::fail(PT(), "extract from a one-element set returned an empty node");
      }
      S &dst = w.slot[j].s();
      Model &mj = *w.m[j];
      const bool bigj0 = w.big[j];
      bool inserted = false;
      if (!use_hint) {
        bool r_ins = false, r_end = true, r_node_empty = true;
        int r_val = -1, r_node_val = -1;
        win([&] {
          auto r = dst.insert(std::move(nh));
          r_ins = r.inserted;
          r_end = r.position == dst.end();
          if (!r_end) r_val = E::val(*r.position);
          r_node_empty = r.node.empty();
          if (!r_node_empty) r_node_val = E::val(r.node.value());
        });
        FCHK; unexpected();
        if (!had) {
          if (r_ins || !r_end || !r_node_empty) vf::fail(PT(), "insert(empty node) must return {end(), false, empty node}");
        } else {
          auto mr = mj.insert(value);
          inserted = mr.second;
          if (r_ins != mr.second) vf::fail(PT(), "insert(node %d): inserted=%d, std::set says %d", value, (int)r_ins, (int)mr.second);
          chk_it(r_end, r_val, *mr.first, PTI());
          if (mr.second) {
            if (!r_node_empty) vf::fail(PT(), "insert(node): returned node not empty after a successful insert");
          } else {
            if (r_node_empty) vf::fail(PT(), "insert(node %d) met an equivalent element and the returned node lost its value (std::set: the node keeps it)", value);
            else if (r_node_val != value) vf::fail(PT(), "insert(node): returned node holds %d, expected %d", r_node_val, value);
          }
        }
      } else {
        auto hint = iter_at(dst, std::min<int>(hpos, (int)mj.size()));
        bool r_end = true;
        int r_val = -1;
        win([&] {
          auto r = dst.insert(hint, std::move(nh));
          r_end = r == dst.end();
          if (!r_end) r_val = E::val(*r);
        });
        FCHK; unexpected();
        if (had) {
          auto mr = mj.insert(value);
          inserted = mr.second;
          chk_it(r_end, r_val, *mr.first, PTI());
          chk_node(nh, had, inserted, value, nm);
        } else if (!r_end)
          vf::fail(PT(), "insert(hint, empty node) must return end()");
      }
      upd_big(j);
      chk_noalloc(!bigj0 && !w.big[j], nm);
    } break;
    case MERGE: {
      const int j = op.j;
      S &o = w.slot[j].s();
      Model &mo = *w.m[j];
      const bool bigj0 = w.big[j];
      const std::vector<int> order = seq_of(o);
      win([&] { SS.merge(o); });
      FCHK; unexpected();
      model_merge(m, mo, order);
      if (bigj0) w.big[i] = true;
      upd_big(i);
      chk_noalloc(!big0 && !bigj0 && !w.big[i], nm);
    } break;
    case MERGE_TEMP:
    case MERGE_OTHER: {
      const int mask = op.a;
      if (op.k == MERGE_TEMP) {
        std::optional<S> t;
        Model tm(mcmp_for(mask));
        build_temp(mask, t, tm);
        const bool tbig = (int)tm.size() > N;
        const std::vector<int> order = seq_of(*t);
        win([&] { SS.merge(*t); });
        chk_source_after_fault(*t, nm);
        FCHK; unexpected();
        model_merge(m, tm, order);
        if (sorted_vals(*t) != sorted_model(tm)) vf::fail(PT(), "merge: the source keeps the wrong elements");
        if (tbig) w.big[i] = true;
        upd_big(i);
        chk_noalloc(!big0 && !tbig && !w.big[i], nm);
      } else {
#if CFG_KIND == 0
        typedef std::conditional<CFG_CMP == 1, std::less<int>, std::greater<int> >::type OM;
        OtherS t;
        std::set<int, OM> tm;
#else
        OtherS t(make_cmp());
        Model tm(make_mcmp());
#endif
        fill_keys(t, tm, mask_keys(mask));
        const bool tbig = kSmallSet && (int)tm.size() > N + 1;
        std::vector<int> order;
        for (auto it = t.begin(); it != t.end(); ++it) order.push_back(E::val(*it));
        win([&] { SS.merge(t); });
        chk_source_after_fault(t, nm);
        FCHK; unexpected();
        model_merge(m, tm, order);
        if (sorted_vals(t) != sorted_model(tm)) vf::fail(PT(), "merge(other type): the source keeps the wrong elements");
        if (tbig) w.big[i] = true;
        upd_big(i);
        chk_noalloc(!big0 && !tbig && !w.big[i], nm);
      }
    } break;
    case MERGE_OTHER2: {
#if CFG_KIND == 1
      // SmallSet of another N, another comparator type and another backing-set type
      const int mask = op.a;
      OtherS2 t;
      std::set<int, OtherMCmp> tm;
      fill_keys(t, tm, mask_keys(mask));
      const bool tbig = (int)tm.size() > kOther2N;
      std::vector<int> order;
      for (auto it = t.begin(); it != t.end(); ++it) order.push_back(E::val(*it));
      win([&] { SS.merge(t); });
      chk_source_after_fault(t, nm);
      FCHK; unexpected();
      model_merge(m, tm, order);
      if (sorted_vals(t) != sorted_model(tm)) vf::fail(PT(), "merge(other comparator): the source keeps the wrong elements");
      if (tbig) w.big[i] = true;
      upd_big(i);
      chk_noalloc(!big0 && !tbig && !w.big[i], nm);
#endif
    } break;
    case SELF_COPY_ASSIGN:
    case SELF_SWAP:
    case SELF_MERGE: {
      // the set as its own operand: nothing changes (std::set: self copy assignment and self swap are no-ops, and no
      // element of a set can be transferred into the set that already holds it)
      win([&] {
        S &self = SS;
        if (op.k == SELF_COPY_ASSIGN) SS = static_cast<const S &>(self);
        else if (op.k == SELF_SWAP) SS.swap(self);
        else SS.merge(self);
      });
      FCHK; unexpected();
      chk_noalloc(!big0, nm);
    } break;
    case SWAP_MEMBER:
    case SWAP_FREE: {
      const int j = op.j;
      S &o = w.slot[j].s();
      win([&] { if (op.k == SWAP_MEMBER) SS.swap(o); else { using std::swap; swap(SS, o); } });
      FCHK; unexpected();
      std::swap(*w.m[i], *w.m[j]);
      const bool any = w.big[i] || w.big[j];
      chk_noalloc(!any, nm);
      std::swap(w.big[i], w.big[j]);
    } break;
    case COPY_ASSIGN:
    case MOVE_ASSIGN: {
      const int j = op.j;
      S &o = w.slot[j].s();
      const bool mv = op.k == MOVE_ASSIGN;
      win([&] { if (mv) SS = std::move(o); else SS = static_cast<const S &>(o); });
      FCHK; unexpected();
      *w.m[i] = *w.m[j];
      if (mv) {
        w.m[j]->clear();
        if (!o.empty()) vf::fail(PT(), "moved-from set is not empty");
        chk_noalloc(!big0 && !w.big[j], nm);
        w.big[i] = w.big[i] || w.big[j];
      } else {
        chk_noalloc(!big0 && !w.big[j], nm);
        // a copy of a set that is (or has been) in its large representation is not "a mix with other inline sets"
        w.big[i] = w.big[i] || w.big[j];
        upd_big(i);
      }
    } break;
    case COPY_CONSTRUCT:
    case MOVE_CONSTRUCT: {
      const int j = op.j;
      S &o = w.slot[j].s();
      const bool mv = op.k == MOVE_CONSTRUCT;
      replace(i, [&](void *where) { if (mv) ::new (where) S(std::move(o)); else ::new (where) S(static_cast<const S &>(o)); });
      sp = &SL.s();
      FCHK; unexpected();
      w.m[i].emplace(*w.m[j]);
      if (mv) {
        w.m[j]->clear();
        if (!o.empty()) vf::fail(PT(), "moved-from set is not empty");
        chk_noalloc(!w.big[j], nm);
        w.big[i] = w.big[j];
      } else {
        chk_noalloc(!w.big[j], nm);
        w.big[i] = w.big[j] || (int)w.m[i]->size() > N;
      }
    } break;
    case COPY_ASSIGN_T:
    case MOVE_ASSIGN_T:
    case SWAP_T:
    case MOVE_CTOR_T:
    case COPY_CTOR_T: {
      const int mask = op.a;
      std::optional<S> t;
      Model tm(mcmp_for(mask));
      build_temp(mask, t, tm);
      const bool tbig = (int)tm.size() > N;
      if (op.k == COPY_ASSIGN_T) {
        win([&] { SS = static_cast<const S &>(*t); });
        FCHK; unexpected();
        m = tm;
        if (sorted_vals(*t) != sorted_model(tm)) vf::fail(PT(), "copy assignment modified its source");
        chk_noalloc(!big0 && !tbig, nm);
        w.big[i] = big0 || tbig;
      } else if (op.k == MOVE_ASSIGN_T) {
        win([&] { SS = std::move(*t); });
        FCHK; unexpected();
        m = tm;
        if (!t->empty()) vf::fail(PT(), "moved-from set is not empty");
        chk_noalloc(!big0 && !tbig, nm);
        w.big[i] = big0 || tbig;
        // the moved-from set must be usable again
        t->insert(mk(0));
        if (t->size() != 1 || !t->contains(mk(0))) vf::fail(PT(), "moved-from set is not usable");
      } else if (op.k == SWAP_T) {
        win([&] { SS.swap(*t); });
        FCHK; unexpected();
        if (sorted_vals(*t) != sorted_model(m)) vf::fail(PT(), "swap: the other operand did not receive our elements");
        m = tm;
        chk_noalloc(!big0 && !tbig, nm);
        w.big[i] = tbig;  // took over the other set's storage
      } else {
        const bool mv = op.k == MOVE_CTOR_T;
        replace(i, [&](void *where) {
          typename S::allocator_type al;
          if (op.b) { if (mv) ::new (where) S(std::move(*t), al); else ::new (where) S(static_cast<const S &>(*t), al); }
          else { if (mv) ::new (where) S(std::move(*t)); else ::new (where) S(static_cast<const S &>(*t)); }
        });
        sp = &SL.s();
        FCHK; unexpected();
        w.m[i].emplace(tm);
        if (mv && !t->empty()) vf::fail(PT(), "moved-from set is not empty");
        chk_noalloc(!tbig, nm);
        w.big[i] = tbig;
      }
    } break;
    case CTOR_RANGE:
    case CTOR_IL:
    case OPEQ_IL: {
      std::vector<int> keys = seq_decode(op.a);
      T a = mk(keys.size() > 0 ? keys[0] : 0), b = mk(keys.size() > 1 ? keys[1] : 0), c = mk(keys.size() > 2 ? keys[2] : 0);
      if (op.k == OPEQ_IL) {
        win([&] {
          if (keys.size() == 0) SS = std::initializer_list<T>{};
          else if (keys.size() == 1) SS = {a};
          else if (keys.size() == 2) SS = {a, b};
          else SS = {a, b, c};
        });
        FCHK; unexpected();
        m.clear();
        for (int k : keys) m.insert(k);
        upd_big(i);
        chk_noalloc(!big0 && !w.big[i], nm);
      } else {
        if (op.k == CTOR_RANGE) {
          with_range_t<T>(op.b, keys, [&](auto f, auto l) { replace(i, [&](void *where) { ::new (where) S(f, l, make_cmp()); }); });
        } else {
          replace(i, [&](void *where) {
            if (keys.size() == 0) ::new (where) S(std::initializer_list<T>{}, make_cmp());
            else if (keys.size() == 1) ::new (where) S({a}, make_cmp());
            else if (keys.size() == 2) ::new (where) S({a, b}, make_cmp());
            else ::new (where) S({a, b, c}, make_cmp());
          });
        }
        sp = &SL.s();
        FCHK; unexpected();
        w.m[i].emplace(make_mcmp());
        for (int k : keys) w.m[i]->insert(k);
        w.big[i] = (int)w.m[i]->size() > N;
        chk_noalloc(!w.big[i], nm);
      }
    } break;
    case FROM_VECTOR:
    case ASSIGN_VECTOR:
    case STEAL_VECTOR:
    case RESERVE:
    case SHRINK: {
#if CFG_KIND == 0 && defined(AMC_NONSTD_FEATURES)
      if (op.k == FROM_VECTOR || op.k == ASSIGN_VECTOR) {
        std::vector<int> keys = seq_decode(op.a);
        UVec uv;
        for (int k : keys) uv.push_back(mk(k));
        if (op.k == FROM_VECTOR) {
          replace(i, [&](void *where) { ::new (where) S(std::move(uv), make_cmp()); });
          sp = &SL.s();
          FCHK; unexpected();
          w.m[i].emplace(make_mcmp());
        } else {
          win([&] { SS = std::move(uv); });
          FCHK; unexpected();
          w.m[i]->clear();
        }
        for (int k : keys) w.m[i]->insert(k);
      } else if (op.k == STEAL_VECTOR) {
        std::vector<int> before = seq_of(SS), got;
        win([&] {
          UVec uv = SS.steal_vector();
          for (const T &e : uv) got.push_back(E::val(e));
        });
        FCHK; unexpected();
        if (got != before) vf::fail(PT(), "steal_vector did not return the elements in order");
        if (!SS.empty()) vf::fail(PT(), "set not empty after steal_vector");
        m.clear();
      } else if (op.k == RESERVE) {
        if (!(CFG_VEC == 2 && op.a > 8)) {
          win([&] { SS.reserve((typename S::size_type)op.a); });
          FCHK; unexpected();
          if ((long)SS.capacity() < op.a) vf::fail(PT(), "reserve(%d): capacity %ld", op.a, (long)SS.capacity());
        }
      } else {
        win([&] { SS.shrink_to_fit(); });
        FCHK; unexpected();
      }
#endif
    } break;
    default:
      break;
  }
fault_done:
  if (capfault() && !faulted()) {
    // legitimate only when the vector really was asked for one element too many; a single-element insertion is checked
    // exactly: the set was full, the key absent, and the failed call left the set as it was
    int key = -2;
    switch (op.k) {
      case INSERT_C: case INSERT_M: case EMPLACE: case NODE_FROM_TEMP: case NODE_FROM_TEMP_HINT: key = op.a; break;
      case HINT_C: case HINT_M: case EMPLACE_HINT: key = op.b; break;
      case EXTRACT_KEY_INS: case EXTRACT_KEY_INS_HINT: case EXTRACT_POS_INS:
        // the node goes into set op.j: when that is ANOTHER set of the pool it gains an element and may be full (no exact
        // check here, the observers validate both sets after the models have been re-read); re-inserting into the set
        // the node came from can never exceed its capacity
        key = op.j != i ? -2 : -3;
        break;
      case EMPTY_NODE_INS: case ERASE_KEY: case ERASE_POS: case ERASE_RANGE:
      case CLEAR: case ERASE_LOOP: case ERASE_IF: case SWAP_MEMBER: case SWAP_FREE: case COPY_ASSIGN: case MOVE_ASSIGN: case COPY_CONSTRUCT:
      case MOVE_CONSTRUCT: case SHRINK: case STEAL_VECTOR: key = -3; break;
      default: break;
    }
    if (key == -3) vf::fail(PT(), "%s: std::out_of_range from an operation that adds no element", nm);
    else if (key >= 0) {
      const bool hinted = op.k == HINT_C || op.k == HINT_M || op.k == EMPLACE_HINT || op.k == NODE_FROM_TEMP_HINT;
      const char *tg = hinted ? "C03,C12" : PT();  // a hint must not change the outcome of the call
      if (sz < kFixedCap || m.count(key)) vf::fail(tg, "%s: std::out_of_range although the element fits (size %d of %d, key %s)", nm, sz, kFixedCap, m.count(key) ? "present" : "absent");
      else if (seq_of(SS) != std::vector<int>(m.begin(), m.end())) vf::fail(tg, "%s: the refused insertion changed the set", nm);
    }
  }
  if (faulted() || capfault()) fault_epilogue(w);
  g_cur_fault = 0;
#undef FCHK
#undef SS
}

}  // namespace sops
