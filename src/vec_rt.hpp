// Runtime of the vector explorer: operation windows (malloc / allocator-call accounting), pool slots, reference
// model, snapshots, canonical key.  C++17.
#pragma once
#include "vec_cfg.hpp"
#include "win.hpp"

namespace rt {
using namespace cfg;

template <class F>
inline void with_range(int src, const std::vector<int> &vals, F &&f) {
  with_range_t<T, true>(src, vals, std::forward<F>(f));  // vectors also take ranges of a converting value_type
}

// ---- pool -----------------------------------------------------------------------------------------------------
constexpr int MAXK = 3;
constexpr int MAXL = 16;

/// Two places for one container.  The second one is a valid address for V (a multiple of alignof(V)) chosen to differ
/// from the first modulo the next larger power of two, so that anything derived from the object's own address (instead
/// of from its type) shows when the container is relocated (C14).
struct Slot {
  static constexpr size_t kA = alignof(V);
  static constexpr size_t kOff = ((sizeof(V) + kA - 1) / kA) * kA + kA;
  alignas(256) unsigned char buf[kOff + sizeof(V) + 256];
  int cur = 0;
  bool alive = false;
  const void *birth = nullptr;  // begin() right after construction (FixedCapacityVector: must never change)
  V &v() { return *std::launder(reinterpret_cast<V *>(raw())); }
  void *raw() { return buf + (cur ? kOff : 0); }
  void *other() { return buf + (cur ? 0 : kOff); }
};

struct MS {
  std::vector<int> v;
  bool ent = true;  // still entitled to inline storage (C05 automaton)
};

inline bool is_inline(const V &v) {
  const char *d = reinterpret_cast<const char *>(v.data());
  const char *o = reinterpret_cast<const char *>(&v);
  return d >= o && d < o + sizeof(V);
}

// raw size words, when the (private) members exist under these names; otherwise -1 (key falls back to public API)
template <class X, class = void>
struct RawWords {
  static long a(const X &) { return -1; }
  static long b(const X &) { return -1; }
};
template <class X>
struct RawWords<X, std::void_t<decltype(std::declval<const X &>()._capa), decltype(std::declval<const X &>()._size)> > {
  static long a(const X &x) { return (long)x._capa; }
  static long b(const X &x) { return (long)x._size; }
};

struct Snap {
  const T *data;
  long cap, size;
  bool inl;
  long ident[MAXL];
};
inline Snap snap(const V &v) {
  Snap s;
  s.data = v.data();
  s.cap = (long)v.capacity();
  s.size = (long)v.size();
  s.inl = is_inline(v);
  for (long i = 0; i < s.size && i < MAXL; ++i) s.ident[i] = E::ident(v.data()[i]);
  return s;
}

}  // namespace rt
