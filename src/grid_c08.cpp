// C08 part (b): complete grid around the maximum of a small size_type for dynamic vectors.
//   -DCFG_FLAVOUR 0|1, -DCFG_N, -DCFG_ELEM, -DCFG_ST (uint8_t / int8_t), -DCFG_ALLOC 2 (LedgerStd) | 3 (LedgerRealloc)
// For every start size s in [max-4, max], every growing operation, EVERY position 0..s and every count 0..8:
//   exceeds max  => std::overflow_error and contents, size, capacity, live objects, allocator blocks exactly as before,
//                   then the vector is still usable (pop_back, push_back, clear);
//   otherwise    => result equals std::vector.
//   grid_c08 [--case "<id>"]      prints one JSON object
#include <cstdio>
#include <string>
#include <vector>

#include "vec_cfg.hpp"
#include "win.hpp"

using namespace cfg;
using rt::W;
using rt::win;

static long g_eval = 0, g_over = 0, g_fit = 0;
static std::vector<std::string> g_fail, g_samples;
static std::vector<std::string> g_fail_sigs;
/// keep the first grid point of every distinct (operation, normalised message): thousands of points of one finding
/// must not crowd out a different one
static void record_fail(const std::string &id, const std::string &err) {
  std::string sig = id.substr(0, id.find('|')) + "|";
  for (char c : err) sig += (c >= '0' && c <= '9') ? '#' : c;
  for (size_t i = 0; i < g_fail_sigs.size(); ++i)
    if (g_fail_sigs[i] == sig) return;
  if (g_fail.size() >= 80) return;
  g_fail_sigs.push_back(sig);
  g_fail.push_back(id + "|" + err);
}
static std::string g_only;
static const long MAXV = kFixed ? (long)N : (long)std::numeric_limits<ST>::max();  // the limit: N for a fixed vector
static const int EXPECT_KIND = kFixed ? 1 : 2;                                       // out_of_range / overflow_error

static void build(V &v, std::vector<int> &m, long s) {
  for (long i = 0; i < s; ++i) {
    v.push_back(E::make((int)(i % 100 + 1)));
    m.push_back((int)(i % 100 + 1));
  }
}
static std::vector<int> vals(const V &v) {
  std::vector<int> r;
  for (const T &e : v) r.push_back(E::val(e));
  return r;
}

enum Kind { PUSH_C, PUSH_M, EMPLACE_BACK, INS_C, INS_M, EMPLACE, INS_N, INS_RANGE, INS_INPUT, INS_IL3, APPEND_N, APPEND_NV, APPEND_RANGE, APPEND_INPUT, RESIZE, RESIZE_V, ASSIGN_RANGE, ASSIGN_INPUT, KCOUNT };
static const char *kn[] = {"push_back_c", "push_back_m", "emplace_back", "insert_c", "insert_m", "emplace", "insert_n", "insert_range", "insert_input", "insert_il3", "append_n", "append_nv", "append_range", "append_input", "resize", "resize_v", "assign_range", "assign_input"};

/// one grid point: returns false if the point is not meaningful (skipped)
static void point(int k, long s, long p, long n, bool shrunk) {
  char id[128];
  std::snprintf(id, sizeof id, "%s|s=%ld|p=%ld|n=%ld%s", kn[k], s, p, n, shrunk ? "|exactcap" : "");
  if (!g_only.empty() && g_only != id) return;
  vf::L().reset();
  vf::AL().reset();
  {
    V v;
    std::vector<int> m;
    build(v, m, s);
    if (shrunk) v.shrink_to_fit();  // capacity == size: the failing call has to reallocate before it fails
    const long live0 = vf::L().live();
    const int blocks0 = vf::AL().n;
    const long cap0 = (long)v.capacity();
    const std::vector<int> before = m;
    std::vector<int> src;
    for (long i = 0; i < n; ++i) src.push_back(200 + (int)i);
    std::vector<T> srcT;
    srcT.reserve(src.size() + 1);
    for (int x : src) srcT.push_back(E::make(x));
    srcT.push_back(E::make(-5));  // sentinel read only by a buggy over-run of a single-pass range
    T t = E::make(150);
    long added = 0;
    const long live_harness = vf::L().live() - live0;  // elements held by the harness (sources, t)
    win([&] {
      switch (k) {
        case PUSH_C: added = 1; v.push_back(t); m.push_back(150); break;
        case PUSH_M: added = 1; v.push_back(std::move(t)); m.push_back(150); break;
        case EMPLACE_BACK: added = 1; v.emplace_back(std::move(t)); m.push_back(150); break;
        case INS_C: added = 1; v.insert(v.begin() + p, t); m.insert(m.begin() + p, 150); break;
        case INS_M: added = 1; v.insert(v.begin() + p, std::move(t)); m.insert(m.begin() + p, 150); break;
        case EMPLACE: added = 1; v.emplace(v.begin() + p, std::move(t)); m.insert(m.begin() + p, 150); break;
        case INS_N: added = n; v.insert(v.begin() + p, (typename V::size_type)n, t); m.insert(m.begin() + p, n, 150); break;
        case INS_RANGE: added = n; v.insert(v.begin() + p, srcT.begin(), srcT.begin() + n); m.insert(m.begin() + p, src.begin(), src.end()); break;
        case INS_INPUT: {
          added = n;
          rt::SPState<T> st{srcT.data(), (int)n, 0, false};
          v.insert(v.begin() + p, rt::SinglePass<T>(&st), rt::SinglePass<T>());
          m.insert(m.begin() + p, src.begin(), src.end());
        } break;
        case APPEND_INPUT: {
          added = n;
          rt::SPState<T> st{srcT.data(), (int)n, 0, false};
          v.append(rt::SinglePass<T>(&st), rt::SinglePass<T>());
          m.insert(m.end(), src.begin(), src.end());
        } break;
        case ASSIGN_INPUT: {
          std::vector<T> big;
          for (long i = 0; i < s + n + 1; ++i) big.push_back(E::make(7));
          added = n;
          rt::SPState<T> st{big.data(), (int)(s + n), 0, false};
          v.assign(rt::SinglePass<T>(&st), rt::SinglePass<T>());
          m.assign(s + n, 7);
        } break;
        case INS_IL3: added = 3; v.insert(v.begin() + p, {t, t, t}); m.insert(m.begin() + p, 3, 150); break;
        case APPEND_N: added = n; v.append((typename V::size_type)n); m.resize(m.size() + n, 0); break;
        case APPEND_NV: added = n; v.append((typename V::size_type)n, t); m.resize(m.size() + n, 150); break;
        case APPEND_RANGE: added = n; v.append(srcT.begin(), srcT.begin() + n); m.insert(m.end(), src.begin(), src.end()); break;
        case RESIZE: added = n; v.resize((typename V::size_type)(s + n)); m.resize(s + n, 0); break;
        case RESIZE_V: added = n; v.resize((typename V::size_type)(s + n), t); m.resize(s + n, 150); break;
        case ASSIGN_RANGE: {
          // a range longer than the maximum: assign(first,last) of length s + n
          std::vector<T> big;
          for (long i = 0; i < s + n; ++i) big.push_back(E::make(7));
          added = n;  // relative to s: new size would be s + n
          v.assign(big.begin(), big.end());
          m.assign(s + n, 7);
        } break;
      }
    });
    ++g_eval;
    const bool exceeds = s + added > MAXV;
    std::string err;
    // resize / append take a size_type argument: s + n must itself be representable to express the call
    if (exceeds) {
      ++g_over;
      if (!W().exc) err = "exceeding the size_type maximum did not throw";
      else if (W().exc_kind != EXPECT_KIND) err = "wrong exception type (kind " + std::to_string(W().exc_kind) + "), expected " + (kFixed ? "std::out_of_range" : "std::overflow_error");
      else {
        if (vals(v) != before) err = "contents changed by the failed call";
        else if ((long)v.size() != s) err = "size changed by the failed call";
        else if ((long)v.capacity() != cap0) err = "capacity changed by the failed call (" + std::to_string(cap0) + " -> " + std::to_string((long)v.capacity()) + ")";
        else if (vf::AL().n != blocks0) err = "allocator blocks changed by the failed call";
      }
      m = before;
    } else {
      ++g_fit;
      if (W().exc) err = "threw although the result fits (kind " + std::to_string(W().exc_kind) + ")";
      else if (vals(v) != m) err = "result differs from std::vector";
    }
    srcT.clear();
    if (err.empty() && E::tracked) {
      long expect = (long)v.size() * vf::ObjsPer<T>::value + 1 * vf::ObjsPer<T>::value;  // + t
      if (vf::L().live() != expect) err = "live element objects " + std::to_string(vf::L().live()) + ", expected " + std::to_string(expect) + " (leak)";
    }
    (void)live_harness;
    if (err.empty() && exceeds) {
      // still fully usable
      if (!v.empty()) { v.pop_back(); m.pop_back(); }
      v.push_back(E::make(9));
      m.push_back(9);
      if (vals(v) != m) err = "not usable after the failed call";
      v.clear();
      if (!v.empty()) err = "clear() after the failed call left elements";
    }
    if (err.empty() && vf::L().nfail) err = std::string("ledger: ") + vf::L().fails[0].msg;
    if (!err.empty()) record_fail(id, err);
    if (g_samples.size() < 5 && exceeds && (g_over % 997) == 1) g_samples.push_back(id);
  }
  if (E::tracked && vf::L().live() != 0) record_fail(id, "objects alive after destruction");
  if (vf::AL().n != 0) record_fail(id, "allocator blocks outstanding after destruction");
}

int main(int argc, char **argv) {
  for (int a = 1; a + 1 < argc; ++a)
    if (std::string(argv[a]) == "--case") g_only = argv[a + 1];
  for (long s = std::max<long>(0, MAXV - 4); s <= MAXV; ++s) {
    for (int k = 0; k < KCOUNT; ++k) {
      const bool positional = k >= INS_C && k <= INS_IL3;
      const bool counted = k == INS_N || k == INS_RANGE || k == INS_INPUT || k >= APPEND_N;
      for (long p = 0; p <= (positional ? s : 0); ++p)
        for (long n = (counted ? 0 : 1); n <= (counted ? 8 : 1); ++n) {
          const long TMAX = (long)std::numeric_limits<ST>::max();
          if ((k == APPEND_N || k == APPEND_NV) && n > TMAX) continue;
          if ((k == RESIZE || k == RESIZE_V) && s + n > TMAX) continue;  // not expressible through size_type
          point(k, s, p, n, false);
          if (kDyn && (counted || p == 0 || p == s)) point(k, s, p, n, true);
        }
    }
  }
  std::printf("{\"evaluations\":%ld,\"exceeding\":%ld,\"fitting\":%ld,\"max\":%ld,\"failures\":[", g_eval, g_over, g_fit, MAXV);
  for (size_t i = 0; i < g_fail.size(); ++i) std::printf("%s\"%s\"", i ? "," : "", g_fail[i].c_str());
  std::printf("],\"samples\":[");
  for (size_t i = 0; i < g_samples.size(); ++i) std::printf("%s\"%s\"", i ? "," : "", g_samples[i].c_str());
  std::printf("]}\n");
  return g_fail.empty() ? 0 : 1;
}
