"""C07 -- capacity contract and address stability: E1 monitor 'cap' over the vector matrix, plus the buffer hand-over rule
for swap2 (the generalised swap) checked by the pair explorer of C13 on pairs that can exchange heap buffers."""
from checks import c13, e1


def run(ctx):
    q = ctx.tier == "quick"
    matrix = e1.quick_matrix() if q else e1.thorough_matrix()
    cov = e1.explore(ctx, matrix, ["C07"])
    pairs = [c13.inst("vec32", "vec32", "NTR", L=4), c13.inst("sv2", "vec32", "TR", L=4), c13.inst("sv3_8", "sv5_16", "TC4", L=4),
             c13.inst("vec8", "vec32", "TC4", L=2, big=[250, 255]), c13.inst("vec8", "vec8", "TC4", L=2, big=[254, 255])]
    if not q:
        pairs += [c13.inst("sv2", "sv2", "NTR", L=5), c13.inst("vec8", "sv3_8", "TR", L=3, big=[255]), c13.inst("sv5_16", "vec32", "NTR", L=5)]
    cov2 = e1.explore(ctx, pairs, ["C07"], engine="E1s", eng=c13.ENG)
    return ctx.finish("model_checking", e1.merge_cov(cov, cov2), e1.ASSUME)
