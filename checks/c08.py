"""C08 -- capacity-limit errors are clean.
(a) E1 on throwing FixedCapacityVector: every growing operation from every reachable state, including every call that
    exceeds N (expected: out_of_range, state unchanged), and at(i) for i in [0, size+2) on every flavour;
(b) grid_c08.cpp: complete grid near the maximum of 8-bit size types (uint8_t: 255, int8_t: 127) for dynamic vectors:
    start sizes max-4..max x every growing operation x EVERY position x counts 0..8 (expected: overflow_error, contents /
    size / capacity / live objects / allocator blocks unchanged, still usable)."""
import json

import vlib
from checks import e1


def grid_matrix(q):
    I = e1.inst
    m = [
        I("vector", 0, "TC4", st="uint8_t", alloc="ledgerrealloc"),
        I("vector", 0, "NTR", st="int8_t", alloc="ledgerstd"),
        I("small", 3, "TR", st="uint8_t", alloc="ledgerrealloc"),
        I("small", 2, "NTR", st="int8_t", alloc="ledgerstd"),
    ]
    # fixed capacity equal to the maximum of the (default) size_type: FixedCapacityVector<T,255> uses uint8_t
    m += [I("fixed", 255, "TR", st="uint8_t"), I("fixed", 127, "NTR", st="int8_t")]
    if not q:
        m += [I("fixed", 255, "NTR", st="uint8_t"), I("fixed", 255, "TC4", st="uint16_t"),
              I("vector", 0, "TR", st="int8_t", alloc="ledgerrealloc"), I("vector", 0, "NTR", st="uint8_t", alloc="ledgerstd"),
              I("small", 5, "TC4", st="int8_t", alloc="ledgerbasic"), I("small", 1, "PTN", st="uint8_t", alloc="ledgerstd"),
              I("small", 3, "NTR", st="uint8_t", alloc="ledgerstd"), I("vector", 0, "TC12", st="uint8_t", alloc="ledgerbasic")]
    return m


def run_grid(ctx, i):
    binp = vlib.build("grid_c08.cpp", e1.flags(i), "g08-" + e1.name(i))
    rc, out, err = vlib.run([binp], timeout=900)
    try:
        res = json.loads(out)
    except ValueError:
        res = None
    return i, binp, rc, res, err


def run(ctx):
    q = ctx.tier == "quick"
    matrix = e1.quick_matrix() if q else e1.thorough_matrix()
    matrix = [i for i in matrix if i["flavour"] == "fixed"] + [i for i in matrix if i["flavour"] != "fixed"][:3]
    # at(i): every size_type width and signedness (indices at the top of the range and at the sign boundary are probed
    # from every state, see explore_vec.cpp observe)
    I = e1.inst
    matrix += [I("vector", 0, "TC4", st="uint64_t", L=2, opts=["--few-ranges"]), I("small", 2, "TR", st="int64_t", L=3, opts=["--few-ranges"]),
               I("fixed", 3, "NTR", st="uint64_t", L=3, opts=["--few-ranges"]), I("small", 2, "TC1", st="int16_t", L=2, opts=["--few-ranges"]),
               I("vector", 0, "NTR", st="int32_t", L=2, opts=["--few-ranges"])]
    cov = e1.explore(ctx, matrix, ["C08"])
    gm = grid_matrix(q)
    vlib.pmap(lambda i: vlib.build("grid_c08.cpp", e1.flags(i), "g08-" + e1.name(i)), gm)
    tot = dict(evaluations=0, exceeding=0, fitting=0)
    gsamples = []
    for i, binp, rc, res, err in vlib.pmap(lambda i: run_grid(ctx, i), gm):
        if res is None:
            ctx.violation("G08|%s|%s|crash" % (i["flavour"], e1._vcat(i)), {"engine": "grid_c08", "instantiation": i, "stderr": err[-2000:], "cmd": binp},
                          "grid_c08 died: " + err.strip().split("\n")[-1][:200])
            continue
        for k in tot:
            tot[k] += res[k]
        gsamples += [e1.name(i) + ": " + s for s in res["samples"][:2]]
        for f in res["failures"]:
            parts = f.split("|")
            sig = "G08|%s|%s|%s|%s" % (i["flavour"], e1._vcat(i), parts[0], e1.norm(parts[-1]))
            case = "|".join(parts[:5] if len(parts) > 5 and parts[4] == "exactcap" else parts[:4])
            cmd = "%s --case '%s'" % (binp, case)
            rc2, out2, _ = vlib.run([binp, "--case", case], timeout=120)
            if rc2 == 0:
                raise RuntimeError("grid failure did not reproduce: " + f)
            ctx.violation(sig, {"engine": "grid_c08", "instantiation": i, "case": case, "observed": parts[-1], "cmd": cmd}, f)
    cov["grid_evaluations"] = tot["evaluations"]
    cov["grid_points_exceeding_the_limit"] = tot["exceeding"]
    cov["grid_points_fitting"] = tot["fitting"]
    cov["samples"] = cov["samples"][:8] + [{"grid point (op|start size|position|count)": s} for s in gsamples[:6]]
    return ctx.finish("model_checking", cov, e1.ASSUME + ["64-bit size arithmetic cannot be reached by execution; the unchecked growing policy beyond N is undefined by contract and not driven"])
