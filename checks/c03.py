"""C03 -- FlatSet is observationally a std::set for every operation history (E2), plus the bulk paths on sets and ranges
of up to 24 (thorough: 40) equivalence classes, where which of several equivalent elements survives is observable and
std::sort stops being incidentally stable (grid_c03.cpp)."""
import re

from checks import e1, e2, grids


def run(ctx):
    q = ctx.tier == "quick"
    matrix = e2.flat_quick() if q else e2.flat_thorough()
    cov = e1.explore(ctx, matrix, ["C03"], engine="E2", eng=e2.ENG)
    base = ["-std=c++17", "-O1", "-g1", "-w", "-DAMC_NONSTD_FEATURES", "-fsanitize=address"]
    configs = [("%s-%s" % (vn, cn), base + ["-DC03_VEC=%d" % vec, "-DC03_CMP=%d" % cmp])
               for vec, vn in ((0, "amcvector"), (1, "smallvector4"), (2, "fixed96"), (3, "stdvector")) for cmp, cn in ((0, "asc"), (1, "desc"))
               if not q or (vec + cmp) % 2 == 0]
    g = grids.run_grids(ctx, "grid_c03.cpp", "G03", configs, ["--nmax", "24" if q else "40"],
                        lambda f: re.sub(r"\d+", "#", f.split("|")[0] + "|" + f.split("|")[-1].split(":")[0]),
                        "one bulk operation on one (held set, range) pair compared element by element with std::set")
    cov["bulk_grid_points"] = g["evaluations"]
    cov["bulk_grid_points_above_16_elements"] = sum(c.get("above_16_elements", 0) for c in g["configurations"])
    cov["samples"] = cov["samples"][:10] + [{"bulk grid point": s} for s in g["samples"][:2]]
    return ctx.finish("model_checking", cov, e2.ASSUME + ["bulk grid: among equivalent elements of ONE inserted range any may survive (unspecified, LWG 2844); an element already held always stays"])
