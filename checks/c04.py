"""C04 -- SmallSet is observationally a std::set across its inline/large transition, both backings (E2), plus the bulk
paths through the inline/large boundary on sets and ranges of up to 24 (thorough: 40) equivalence classes (grid_c03.cpp
built for SmallSet<int,4> over a FlatSet and over a std::set)."""
import re

from checks import e1, e2, grids


def run(ctx):
    q = ctx.tier == "quick"
    matrix = e2.small_quick() if q else e2.small_thorough()
    cov = e1.explore(ctx, matrix, ["C04"], engine="E2", eng=e2.ENG)
    base = ["-std=c++17", "-O1", "-g1", "-w", "-DAMC_NONSTD_FEATURES", "-fsanitize=address"]
    configs = [("smallset4-flatset-amcvector-asc", base + ["-DC03_KIND=1", "-DC03_VEC=0", "-DC03_CMP=0"]),
               ("smallset4-stdset-desc", base + ["-DC03_KIND=2", "-DC03_VEC=0", "-DC03_CMP=1"])]
    if not q:
        configs += [("smallset4-flatset-smallvector4-desc", base + ["-DC03_KIND=1", "-DC03_VEC=1", "-DC03_CMP=1"]),
                    ("smallset4-flatset-stdvector-asc", base + ["-DC03_KIND=1", "-DC03_VEC=3", "-DC03_CMP=0"]),
                    ("smallset4-stdset-asc", base + ["-DC03_KIND=2", "-DC03_VEC=0", "-DC03_CMP=0"])]
    g = grids.run_grids(ctx, "grid_c03.cpp", "G04", configs, ["--nmax", "24" if q else "40"],
                        lambda f: re.sub(r"\d+", "#", f.split("|")[0] + "|" + f.split("|")[-1].split(":")[0]),
                        "one bulk operation on one (held set, range) pair compared element by element with std::set")
    cov["bulk_grid_points"] = g["evaluations"]
    cov["samples"] = cov["samples"][:10] + [{"bulk grid point": s} for s in g["samples"][:2]]
    return ctx.finish("model_checking", cov, e2.ASSUME + ["bulk grid: among equivalent elements of ONE inserted range any may survive (unspecified, LWG 2844); an element already held always stays"])
