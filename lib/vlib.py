"""Shared helpers for the /verif checks (build cache, evidence, violations, known findings).

Every check is a python module checks/cXX.py exposing  run(ctx) -> None  and using a Ctx object.
Nothing here decides a property; it only builds, runs, records.
"""
import concurrent.futures as cf
import hashlib
import json
import os
import subprocess
import sys
import time

VERIF = os.path.dirname(os.path.dirname(os.path.abspath(__file__)))
REPO = os.environ.get("VERIF_REPO", "/repo")
INC = os.path.join(REPO, "include")
BUILD = os.path.join(VERIF, "build")
# evidence/ and replays/ describe /repo itself; a run against another tree (VERIF_REPO, used to try seeded changes) writes
# its artefacts under build/ so that it can never be mistaken for, or committed as, evidence about /repo
_OTHER_TREE = os.path.realpath(REPO) != "/repo"
EVID = os.path.join(VERIF, "build", "other-tree", "evidence") if _OTHER_TREE else os.path.join(VERIF, "evidence")
REPLAYS = os.path.join(VERIF, "build", "other-tree", "replays") if _OTHER_TREE else os.path.join(VERIF, "replays")
SRC = os.path.join(VERIF, "src")
NCPU = min(16, os.cpu_count() or 4)

CXX = os.environ.get("VERIF_CXX", "g++")

# Flags shared by the explorers: ASan as crash oracle plus the UBSan checks that cannot fire on benign code.
SAN = ["-fsanitize=address", "-fsanitize=alignment,null,return,unreachable,bool,enum,signed-integer-overflow",
       "-fno-sanitize-recover=all", "-fno-omit-frame-pointer"]


def _tree_hash(root):
    h = hashlib.sha256()
    for d, _, fs in sorted(os.walk(root)):
        for f in sorted(fs):
            p = os.path.join(d, f)
            h.update(os.path.relpath(p, root).encode())
            with open(p, "rb") as fh:
                h.update(fh.read())
    return h.hexdigest()


_inc_hash = None


def include_hash():
    """Content hash of /repo/include (working tree, not HEAD) -> an edited header always rebuilds."""
    global _inc_hash
    if _inc_hash is None:
        _inc_hash = _tree_hash(INC)
    return _inc_hash


_src_hash = {}


def _dir_hash(d):
    h = hashlib.sha256()
    for f in sorted(os.listdir(d)):
        p = os.path.join(d, f)
        if os.path.isfile(p):
            h.update(f.encode())
            with open(p, "rb") as fh:
                h.update(fh.read())
    return h.hexdigest()


def src_hash(srcp=None):
    """Hash of the harness sources a translation unit can include: the files next to it plus the shared
    top-level headers of /verif/src (sub-directories of other engines do not invalidate it)."""
    d = os.path.dirname(os.path.abspath(srcp)) if srcp else SRC
    if d not in _src_hash:
        hh = _dir_hash(SRC)
        if d != SRC and os.path.isdir(d):
            hh += _dir_hash(d)
        _src_hash[d] = hashlib.sha256(hh.encode()).hexdigest()
    return _src_hash[d]


def build(src, flags, tag, cxx=None, extra_inputs=(), timeout=900, use_include=True, link=True):
    """Compile src (relative to /verif/src or absolute) with flags; returns path to the binary/object.
    The output name is keyed by hash(include tree, harness sources, flags, compiler)."""
    cxx = cxx or CXX
    srcp = src if os.path.isabs(src) else os.path.join(SRC, src)
    h = hashlib.sha256()
    h.update(include_hash().encode() if use_include else b"-")
    h.update(src_hash(srcp).encode())
    for e in extra_inputs:
        with open(e, "rb") as fh:
            h.update(fh.read())
    h.update(("\0".join(flags) + "|" + cxx + "|" + srcp).encode())
    os.makedirs(BUILD, exist_ok=True)
    fh8 = hashlib.sha256(("\0".join(flags) + "|" + cxx + "|" + srcp).encode()).hexdigest()[:8]
    out = os.path.join(BUILD, "%s-%s-%s%s" % (tag, fh8, h.hexdigest()[:16], "" if link else ".o"))
    if os.path.exists(out):
        return out
    import threading
    tmp = out + ".tmp%d_%d" % (os.getpid(), threading.get_ident())
    cmd = [cxx] + list(flags) + (["-I", INC] if use_include else []) + ["-I", SRC, srcp, "-o", tmp]
    if not link:
        cmd.insert(1, "-c")
    r = subprocess.run(cmd, stdout=subprocess.PIPE, stderr=subprocess.STDOUT, timeout=timeout)
    if r.returncode != 0:
        try:
            os.unlink(tmp)
        except OSError:
            pass
        raise BuildError(" ".join(cmd), r.stdout.decode(errors="replace"))
    os.rename(tmp, out)
    # prune stale builds of the same tag (older header/harness contents)
    import glob
    for old in glob.glob(os.path.join(BUILD, "%s-%s-*" % (tag, fh8))):
        if old != out and ".tmp" not in old and len(os.path.basename(old)) == len(os.path.basename(out)):
            try:
                os.unlink(old)
            except OSError:
                pass
    return out


class BuildError(Exception):
    def __init__(self, cmd, out):
        Exception.__init__(self, "build failed: %s\n%s" % (cmd, out[-6000:]))
        self.cmd = cmd
        self.out = out


def try_compile(code, flags, cxx=None, use_include=True):
    """Build probe: does this snippet compile (syntax-only)?  Returns (ok, output)."""
    cxx = cxx or CXX
    cmd = [cxx, "-fsyntax-only", "-x", "c++", "-"] + list(flags) + (["-I", INC] if use_include else []) + ["-I", SRC]
    r = subprocess.run(cmd, input=code.encode(), stdout=subprocess.PIPE, stderr=subprocess.STDOUT)
    return r.returncode == 0, r.stdout.decode(errors="replace")


def pmap(fn, items, workers=None):
    """Run fn over items in threads (the work is subprocesses), preserving order; exceptions propagate."""
    workers = workers or NCPU
    with cf.ThreadPoolExecutor(max_workers=workers) as ex:
        return list(ex.map(fn, items))


def run(cmd, timeout=None, env=None, stdin=None, cwd=None):
    e = dict(os.environ)
    e.setdefault("ASAN_OPTIONS", "detect_leaks=0:abort_on_error=0:allocator_may_return_null=1")
    if env:
        e.update(env)
    try:
        r = subprocess.run(cmd, stdout=subprocess.PIPE, stderr=subprocess.PIPE, timeout=timeout, env=e, input=stdin, cwd=cwd)
        return r.returncode, r.stdout.decode(errors="replace"), r.stderr.decode(errors="replace")
    except subprocess.TimeoutExpired as ex:
        return -999, (ex.stdout or b"").decode(errors="replace"), (ex.stderr or b"").decode(errors="replace") + "\nTIMEOUT"


# ----------------------------------------------------------------------------------------------------------------
# known findings


def load_known():
    p = os.path.join(VERIF, "known_findings.json")
    if not os.path.exists(p):
        return []
    with open(p) as fh:
        return json.load(fh)


class Ctx:
    """Per-run context of one check: collects violations, prints the interface lines, writes evidence."""

    def __init__(self, pid, tier, seed):
        self.pid = pid
        self.tier = tier
        self.seed = seed
        self.t0 = time.time()
        self.viol = []  # (signature, replay_path, what)
        self.known_hit = {}
        self.known = [k for k in load_known() if k.get("property") == pid and k.get("status") == "known"]
        self.deadline = self.t0 + (600 if tier == "quick" else 2700)
        self.notes = []
        # replay artefacts of earlier runs of this check are stale by definition
        import glob
        for f in glob.glob(os.path.join(REPLAYS, "%s-*.json" % pid)):
            try:
                os.unlink(f)
            except OSError:
                pass

    def time_left(self):
        return self.deadline - time.time()

    def violation(self, signature, replay, what):
        """Record one violation. replay is a dict written to replays/<pid>-<hash>.json.
        Returns True if it is new (not a listed known finding)."""
        for k in self.known:
            if _sig_match(k.get("signature", ""), signature):
                if k["signature"] not in self.known_hit:
                    self.known_hit[k["signature"]] = (k, signature, replay)
                return False
        for s, _, _ in self.viol:
            if s == signature:
                return True
        os.makedirs(REPLAYS, exist_ok=True)
        hh = hashlib.sha256(signature.encode()).hexdigest()[:12]
        path = os.path.join(REPLAYS, "%s-%s.json" % (self.pid, hh))
        replay = dict(replay)
        replay["property"] = self.pid
        replay["signature"] = signature
        replay["what"] = what
        with open(path, "w") as fh:
            json.dump(replay, fh, indent=1)
        self.viol.append((signature, path, what))
        return True

    def finish(self, level, coverage, assumptions):
        wall = time.time() - self.t0
        for sig, (k, s, _) in self.known_hit.items():
            print("KNOWN-FINDING: property=%s %s" % (self.pid, k.get("what", sig)))
        for s, path, what in self.viol:
            print("VIOLATION property=%s replay=%s" % (self.pid, path))
            print("  signature: %s" % s)
            print("  what: %s" % what[:600])
        ev = {
            "property_id": self.pid,
            "tier": self.tier,
            "seed": self.seed,
            "level": level,
            "coverage": coverage,
            "assumptions": assumptions,
            "wall_s": round(wall, 2),
            "violations": len(self.viol),
        }
        if self.known_hit:
            ev["known_findings_reported"] = sorted(self.known_hit)
        if self.notes:
            ev["notes"] = self.notes
        os.makedirs(EVID, exist_ok=True)
        tmp = os.path.join(EVID, "%s.json.tmp" % self.pid)
        with open(tmp, "w") as fh:
            json.dump(ev, fh, indent=1)
        os.rename(tmp, os.path.join(EVID, "%s.json" % self.pid))
        summ = {k: v for k, v in coverage.items() if isinstance(v, (int, float, bool))}
        print("%s %s: %s  wall=%.1fs violations=%d" % (self.pid, self.tier, json.dumps(summ), wall, len(self.viol)))
        return 1 if self.viol else 0


def _sig_match(pattern, sig):
    """Known-finding signature patterns are '|'-separated fields; each field of the pattern is a comma list of
    admissible values or '*'.  A violation signature has single values per field."""
    pf = pattern.split("|")
    sf = sig.split("|")
    if len(pf) != len(sf):
        return False
    for p, s in zip(pf, sf):
        if p == "*":
            continue
        if s not in p.split(","):
            return False
    return True
