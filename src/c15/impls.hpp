// C15: the three "worlds" a case is executed in, all with one static interface.
//   AmcImpl : the library under test (amc::)
//   RefImpl : reference written from the wording of the C++17/20 standard ([specialized.algorithms]): plain loops,
//             try/catch that destroys what was built; relocate = move-construct everything, then destroy the sources
//   StdImpl : libstdc++ itself, for the algorithms the selected -std= provides
// C++11.
#pragma once
#include <amc/memory.hpp>

#include <iterator>
#include <memory>
#include <new>
#include <type_traits>
#include <utility>

#define C15_STD17 (__cplusplus >= 201703L)
#define C15_STD20 (__cplusplus >= 202002L)

namespace c15 {

// ---- library under test -------------------------------------------------------------------------------------------
struct AmcImpl {
  static const char *name() { return "amc"; }
  template <class I, class O>
  static O ucopy(I f, I l, O d) { return amc::uninitialized_copy(f, l, d); }
  template <class I, class O>
  static O ucopy_n(I f, int n, O d) { return amc::uninitialized_copy_n(f, n, d); }
  template <class I, class O>
  static O umove(I f, I l, O d) { return amc::uninitialized_move(f, l, d); }
  template <class I, class O>
  static std::pair<I, O> umove_n(I f, int n, O d) { return amc::uninitialized_move_n(f, n, d); }
  template <class I, class O>
  static O reloc(I f, I l, O d) { return amc::uninitialized_relocate(f, l, d); }
  template <class I, class O>
  static std::pair<I, O> reloc_n(I f, int n, O d) { return amc::uninitialized_relocate_n(f, n, d); }
  template <class T>
  static T *reloc_at(T *e, T *d) { return amc::relocate_at(e, d); }

  template <class F>
  static void udef(F f, F l) { amc::uninitialized_default_construct(f, l); }
  template <class F>
  static F udef_n(F f, int n) { return amc::uninitialized_default_construct_n(f, n); }
  template <class F>
  static void uval(F f, F l) { amc::uninitialized_value_construct(f, l); }
  template <class F>
  static F uval_n(F f, int n) { return amc::uninitialized_value_construct_n(f, n); }

  template <class F>
  static void destroy(F f, F l) { amc::destroy(f, l); }
  template <class F>
  static F destroy_n(F f, int n) { return amc::destroy_n(f, n); }
  template <class T>
  static void destroy_at(T *p) { amc::destroy_at(p); }

  // construct_at forms; the result is returned as an untyped address (the C++20 array form returns an element pointer)
  template <class T>
  static const void *cat_value(T *p, int v) { return amc::construct_at(p, v); }
  template <class T>
  static const void *cat_default(T *p) { return amc::construct_at(p); }
  template <class T>
  static const void *cat_copy(T *p, const T &s) { return amc::construct_at(p, s); }
  template <class T>
  static const void *cat_move(T *p, T &s) { return amc::construct_at(p, std::move(s)); }
#if !C15_STD20
  // amc extension of the emulation: construct an array from an rvalue array, element by element.
  template <class AT>
  static const void *cat_arr_move(AT *p, AT &s) { return amc::construct_at(p, std::move(s)); }
  // ... and its copying twin, reachable with const arrays only (T = const E[N], so that Args == T).
  template <class AT>
  static const void *cat_arr_copy(AT *p, AT &s) {
    return amc::construct_at(const_cast<const AT *>(p), std::move(const_cast<const AT &>(s)));
  }
#endif
#if C15_STD20
  template <class AT>
  static const void *cat_arr_default(AT *p) { return amc::construct_at(p); }
#endif
};

// ---- reference ----------------------------------------------------------------------------------------------------
struct RefImpl {
  static const char *name() { return "reference"; }

  template <class F>
  static void destroy(F f, F l) {
    for (; f != l; ++f) destroy_at(std::addressof(*f));
  }
  template <class F>
  static F destroy_n(F f, int n) {
    for (; n > 0; (void)++f, --n) destroy_at(std::addressof(*f));
    return f;
  }
  template <class T>
  static typename std::enable_if<!std::is_array<T>::value>::type destroy_at(T *p) {
    p->~T();
  }
  template <class T>
  static typename std::enable_if<std::is_array<T>::value>::type destroy_at(T *p) {
    for (auto &e : *p) destroy_at(std::addressof(e));
  }

  template <class I, class O>
  static O ucopy(I f, I l, O d) {
    typedef typename std::iterator_traits<O>::value_type V;
    O cur = d;
    try {
      for (; f != l; ++f, (void)++cur) ::new (static_cast<void *>(std::addressof(*cur))) V(*f);
      return cur;
    } catch (...) {
      destroy(d, cur);
      throw;
    }
  }
  template <class I, class O>
  static O ucopy_n(I f, int n, O d) {
    typedef typename std::iterator_traits<O>::value_type V;
    O cur = d;
    try {
      for (; n > 0; ++f, (void)++cur, --n) ::new (static_cast<void *>(std::addressof(*cur))) V(*f);
      return cur;
    } catch (...) {
      destroy(d, cur);
      throw;
    }
  }
  template <class I, class O>
  static O umove(I f, I l, O d) {
    typedef typename std::iterator_traits<O>::value_type V;
    O cur = d;
    try {
      for (; f != l; ++f, (void)++cur) ::new (static_cast<void *>(std::addressof(*cur))) V(std::move(*f));
      return cur;
    } catch (...) {
      destroy(d, cur);
      throw;
    }
  }
  template <class I, class O>
  static std::pair<I, O> umove_n(I f, int n, O d) {
    typedef typename std::iterator_traits<O>::value_type V;
    O cur = d;
    try {
      for (; n > 0; ++f, (void)++cur, --n) ::new (static_cast<void *>(std::addressof(*cur))) V(std::move(*f));
      return std::pair<I, O>(f, cur);
    } catch (...) {
      destroy(d, cur);
      throw;
    }
  }
  // relocate: move-construct, then destroy the source.  A throwing move leaves no object behind in the destination
  // (uninitialized_move's guarantee) and every source alive.
  template <class I, class O>
  static O reloc(I f, I l, O d) {
    O e = umove(f, l, d);
    destroy(f, l);
    return e;
  }
  template <class I, class O>
  static std::pair<I, O> reloc_n(I f, int n, O d) {
    std::pair<I, O> r = umove_n(f, n, d);
    destroy_n(f, n);
    return r;
  }
  template <class T>
  static T *reloc_at(T *e, T *d) {
    T *r = ::new (static_cast<void *>(d)) T(std::move(*e));
    e->~T();
    return r;
  }

  template <class F>
  static void udef(F f, F l) {
    typedef typename std::iterator_traits<F>::value_type V;
    F cur = f;
    try {
      for (; cur != l; ++cur) ::new (static_cast<void *>(std::addressof(*cur))) V;
    } catch (...) {
      destroy(f, cur);
      throw;
    }
  }
  template <class F>
  static F udef_n(F f, int n) {
    typedef typename std::iterator_traits<F>::value_type V;
    F cur = f;
    try {
      for (; n > 0; (void)++cur, --n) ::new (static_cast<void *>(std::addressof(*cur))) V;
      return cur;
    } catch (...) {
      destroy(f, cur);
      throw;
    }
  }
  template <class F>
  static void uval(F f, F l) {
    typedef typename std::iterator_traits<F>::value_type V;
    F cur = f;
    try {
      for (; cur != l; ++cur) ::new (static_cast<void *>(std::addressof(*cur))) V();
    } catch (...) {
      destroy(f, cur);
      throw;
    }
  }
  template <class F>
  static F uval_n(F f, int n) {
    typedef typename std::iterator_traits<F>::value_type V;
    F cur = f;
    try {
      for (; n > 0; (void)++cur, --n) ::new (static_cast<void *>(std::addressof(*cur))) V();
      return cur;
    } catch (...) {
      destroy(f, cur);
      throw;
    }
  }

  template <class T>
  static const void *cat_value(T *p, int v) { return ::new (static_cast<void *>(p)) T(v); }
  template <class T>
  static const void *cat_default(T *p) { return ::new (static_cast<void *>(p)) T(); }
  template <class T>
  static const void *cat_copy(T *p, const T &s) { return ::new (static_cast<void *>(p)) T(s); }
  template <class T>
  static const void *cat_move(T *p, T &s) { return ::new (static_cast<void *>(p)) T(std::move(s)); }

  // Arrays: elements in index order; a throw destroys the elements already built.
  template <class AT>
  static const void *cat_arr_move(AT *p, AT &s) {
    typedef typename std::remove_all_extents<AT>::type E;
    E *d = reinterpret_cast<E *>(p), *f = reinterpret_cast<E *>(&s);
    umove(f, f + sizeof(AT) / sizeof(E), d);
    return p;
  }
  template <class AT>
  static const void *cat_arr_copy(AT *p, AT &s) {
    typedef typename std::remove_all_extents<AT>::type E;
    E *d = reinterpret_cast<E *>(p), *f = reinterpret_cast<E *>(&s);
    ucopy(f, f + sizeof(AT) / sizeof(E), d);
    return p;
  }
  template <class AT>
  static const void *cat_arr_default(AT *p) {
    typedef typename std::remove_all_extents<AT>::type E;
    E *d = reinterpret_cast<E *>(p);
    uval(d, d + sizeof(AT) / sizeof(E));
    return p;
  }
};

// ---- the standard library -----------------------------------------------------------------------------------------
struct StdImpl {
  static const char *name() { return "std"; }
  template <class I, class O>
  static O ucopy(I f, I l, O d) { return std::uninitialized_copy(f, l, d); }
  template <class I, class O>
  static O ucopy_n(I f, int n, O d) { return std::uninitialized_copy_n(f, n, d); }
#if C15_STD17
  template <class I, class O>
  static O umove(I f, I l, O d) { return std::uninitialized_move(f, l, d); }
  template <class I, class O>
  static std::pair<I, O> umove_n(I f, int n, O d) { return std::uninitialized_move_n(f, n, d); }
  template <class F>
  static void udef(F f, F l) { std::uninitialized_default_construct(f, l); }
  template <class F>
  static F udef_n(F f, int n) { return std::uninitialized_default_construct_n(f, n); }
  template <class F>
  static void uval(F f, F l) { std::uninitialized_value_construct(f, l); }
  template <class F>
  static F uval_n(F f, int n) { return std::uninitialized_value_construct_n(f, n); }
  template <class F>
  static void destroy(F f, F l) { std::destroy(f, l); }
  template <class F>
  static F destroy_n(F f, int n) { return std::destroy_n(f, n); }
  template <class T>
  static void destroy_at(T *p) { std::destroy_at(p); }
#endif
#if C15_STD20
  template <class T>
  static const void *cat_value(T *p, int v) { return std::construct_at(p, v); }
  template <class T>
  static const void *cat_default(T *p) { return std::construct_at(p); }
  template <class T>
  static const void *cat_copy(T *p, const T &s) { return std::construct_at(p, s); }
  template <class T>
  static const void *cat_move(T *p, T &s) { return std::construct_at(p, std::move(s)); }
  template <class AT>
  static const void *cat_arr_default(AT *p) { return std::construct_at(p); }
#endif
};

}  // namespace c15
