// C10 at large indices: self-referencing value arguments on vectors of 100..250 elements with a narrow size_type
// (uint8_t / int8_t / uint16_t), where an element index no longer fits the SIGNED type of the same width.  The history
// explorer proves the small scope (every size <= 6); this grid adds every source index of interest on big vectors.
//   -DCFG_FLAVOUR 0|1, -DCFG_N, -DCFG_ELEM, -DCFG_ST, -DCFG_ALLOC 2 (LedgerStd: released blocks are overwritten with 0xDD)
// Grid: size s x source index i x operation x position x {exact capacity (the call reallocates), spare capacity}.
// Oracle: the same call on std::vector<int>.
#include <cstdio>
#include <string>
#include <vector>

#include "vec_cfg.hpp"
#include "win.hpp"

using namespace cfg;
using rt::W;
using rt::win;

static long g_eval = 0, g_realloc = 0, g_high = 0;
static std::vector<std::string> g_fail, g_sigs, g_samples;
static std::string g_only;
static void record_fail(const std::string &id, const std::string &err) {
  std::string sig = id.substr(0, id.find('|')) + "|";
  for (char c : err) sig += (c >= '0' && c <= '9') ? '#' : c;
  for (size_t i = 0; i < g_sigs.size(); ++i)
    if (g_sigs[i] == sig) return;
  if (g_fail.size() >= 40) return;
  g_sigs.push_back(sig);
  g_fail.push_back(id + "|" + err);
}
static const long MAXV = (long)std::numeric_limits<ST>::max();

enum Kind { PUSH, EMPLACE_BACK, INS, INS_N2, EMPLACE, RESIZE_V, APPEND_NV, ASSIGN_NV, KCOUNT };
static const char *kn[] = {"push_back", "emplace_back", "insert", "insert_n2", "emplace", "resize_v", "append_nv", "assign_nv"};

static void point(int k, long s, long i, long p, bool spare) {
  char id[128];
  std::snprintf(id, sizeof id, "%s|s=%ld|src=%ld|pos=%ld|%s", kn[k], s, i, p, spare ? "spare" : "exact");
  if (!g_only.empty() && g_only != id) return;
  const long added = k == INS_N2 || k == RESIZE_V || k == APPEND_NV ? 2 : k == ASSIGN_NV ? 3 : 1;
  if (s + added > MAXV) return;
  if (spare && s + 8 > MAXV) return;
  vf::L().reset();
  vf::AL().reset();
  {
    V v;
    std::vector<int> m;
    for (long x = 0; x < s; ++x) {
      v.push_back(E::make((int)(x + 1)));
      m.push_back((int)(x + 1));
    }
    if (spare) v.reserve((typename V::size_type)(s + 8));
    else v.shrink_to_fit();
    const void *d0 = v.data();
    const int mv = m[i];  // std::vector semantics: the value is the one the element had before the call
    win([&] {
      const T &src = v[(typename V::size_type)i];
      switch (k) {
        case PUSH: v.push_back(src); break;
        case EMPLACE_BACK: v.emplace_back(src); break;
        case INS: v.insert(v.begin() + p, src); break;
        case INS_N2: v.insert(v.begin() + p, (typename V::size_type)2, src); break;
        case EMPLACE: v.emplace(v.begin() + p, src); break;
        case RESIZE_V: v.resize((typename V::size_type)(s + 2), src); break;
        case APPEND_NV: v.append((typename V::size_type)2, src); break;
        case ASSIGN_NV: v.assign((typename V::size_type)(s + 3), src); break;
      }
    });
    switch (k) {
      case PUSH: case EMPLACE_BACK: m.push_back(mv); break;
      case INS: case EMPLACE: m.insert(m.begin() + p, mv); break;
      case INS_N2: m.insert(m.begin() + p, 2, mv); break;
      case RESIZE_V: case APPEND_NV: m.resize(s + 2, mv); break;
      case ASSIGN_NV: m.assign(s + 3, mv); break;
    }
    ++g_eval;
    if (v.data() != d0) ++g_realloc;
    if (i > MAXV / 2) ++g_high;
    std::string err;
    if (W().exc) err = "threw (kind " + std::to_string(W().exc_kind) + ")";
    else if ((long)v.size() != (long)m.size()) err = "size " + std::to_string((long)v.size()) + ", std::vector has " + std::to_string(m.size());
    else
      for (size_t x = 0; x < m.size(); ++x) {
        const char *why = nullptr;
        if (!E::sane(v[(typename V::size_type)x], &why)) {
          err = std::string("element ") + std::to_string(x) + ": " + why;
          break;
        }
        if (E::val(v[(typename V::size_type)x]) != m[x]) {
          err = "element " + std::to_string(x) + " is " + std::to_string(E::val(v[(typename V::size_type)x])) + ", std::vector has " + std::to_string(m[x]);
          break;
        }
      }
    if (err.empty() && vf::L().nfail) err = std::string("ledger: ") + vf::L().fails[0].msg;
    if (!err.empty()) record_fail(id, err);
    if (g_samples.size() < 4 && !spare && i > MAXV / 2 && (g_eval % 211) == 0) g_samples.push_back(id);
  }
  if (E::tracked && vf::L().live() != 0) record_fail(id, "objects alive after destruction");
  if (vf::AL().n != 0) record_fail(id, "allocator blocks outstanding after destruction");
}

int main(int argc, char **argv) {
  bool thorough = false;
  for (int a = 1; a < argc; ++a) {
    if (std::string(argv[a]) == "--case" && a + 1 < argc) g_only = argv[a + 1];
    if (std::string(argv[a]) == "--thorough") thorough = true;
  }
  std::vector<long> sizes;
  const long half = MAXV / 2;  // 127 for uint8_t, 63 for int8_t
  const long top = std::min<long>(MAXV - 3, thorough ? 40000 : 300);
  for (long s : {half - 1, half, half + 1, half + 2, half + 3, half + 9, top - 5, top})
    if (s >= 2 && s <= top && s <= 70000) sizes.push_back(s);
  if (thorough)
    for (long s = 100; s <= std::min<long>(MAXV - 3, 250); s += 7) sizes.push_back(s);
  for (long s : sizes) {
    std::vector<long> srcs;
    for (long i : {0L, 1L, half - 1, half, half + 1, half + 2, s / 2, s - 2, s - 1})
      if (i >= 0 && i < s) srcs.push_back(i);
    for (long i : srcs)
      for (int k = 0; k < KCOUNT; ++k) {
        const bool positional = k == INS || k == INS_N2 || k == EMPLACE;
        std::vector<long> poss;
        if (positional) poss = {0, i, i + 1 <= s ? i + 1 : s, s / 3, s};
        else poss = {0};
        for (long p : poss)
          for (int spare = 0; spare < 2; ++spare) point(k, s, i, p, spare != 0);
      }
  }
  std::printf("{\"evaluations\":%ld,\"distinct_nontrivial\":%ld,\"reallocating\":%ld,\"source_index_above_signed_max\":%ld,\"max\":%ld,\"failures\":[", g_eval, g_realloc, g_realloc,
              g_high, MAXV);
  for (size_t i = 0; i < g_fail.size(); ++i) std::printf("%s\"%s\"", i ? "," : "", g_fail[i].c_str());
  std::printf("],\"samples\":[");
  for (size_t i = 0; i < g_samples.size(); ++i) std::printf("%s\"%s\"", i ? "," : "", g_samples[i].c_str());
  std::printf("]}\n");
  return g_fail.empty() ? 0 : 1;
}
