#!/bin/bash
# run every thorough check once, end to end; one summary line each
for p in "$@"; do
  s=$(date +%s)
  out=$(python3 bin/check $p --tier thorough 2>&1); rc=$?
  e=$(date +%s)
  echo "== $p rc=$rc wall=$((e-s))s $(echo "$out" | grep -c '^VIOLATION') violations"
  echo "$out" | grep -E "^VIOLATION|signature:|^$p thorough|KNOWN|Error|error" | cut -c1-400 | head -12
done
