"""C06 -- allocator protocol: E1 over the ledger allocators, monitor 'alloc'.  Two instantiations additionally run with
one injected allocation/copy fault per history, because a failed (re)allocation is where a capacity word and a block
most easily get out of step."""
from checks import e1


def run(ctx):
    q = ctx.tier == "quick"
    matrix = [i for i in (e1.quick_matrix() if q else e1.thorough_matrix()) if e1.relevant("C06", i)]
    I = e1.inst
    matrix += [
        I("vector", 0, "TR", alloc="ledgerrealloc", L=3, opts=["--few-ranges", "--fault", "1"]),
        I("small", 2, "NTR", alloc="ledgerstd", L=3, opts=["--few-ranges", "--fault", "1"]),
        I("vector", 0, "TC4", alloc="ledgerbasic", L=3, opts=["--few-ranges", "--fault", "1"]),
    ]
    cov = e1.explore(ctx, matrix, ["C06"])
    return ctx.finish("model_checking", cov, e1.ASSUME)
