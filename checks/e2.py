"""E2 driver: set explorer (FlatSet / SmallSet against std::set).  Reuses the generic exploration loop of e1.py."""
import vlib
from checks import e1

ELEMS = {"TC4": 4, "TR": 20, "NTR": 21}
CMPS = {"less": 0, "greater": 1, "coarse": 2, "stateful": 3, "transparent": 4, "selfptr": 5}
VECS = {"amcvector": 0, "smallvector2": 1, "fixed8": 2, "stdvector": 3, "fixed3": 4}
BACKS = {"stdset": 0, "flatset": 1}
ALLOCS = {"amc": 0, "ledgerstd": 2}


def inst(kind, elem="TC4", cmp="less", vec="amcvector", back="stdset", N=2, alloc="amc", keys=4, std="c++17", K=1, opts=(), reloc=0):
    return dict(kind=kind, elem=elem, cmp=cmp, vec=vec, back=back, N=N, alloc=alloc, keys=keys, std=std, K=K, L=keys, opts=list(opts), reloc=reloc)


def name(i):
    if i["kind"] == "flatset":
        return "flat-%s-%s-%s-%s-k%d-%s" % (i["elem"], i["cmp"], i["vec"], i["alloc"], i["keys"], i["std"])
    return "sset%d-%s-%s-%s-%s-k%d-%s" % (i["N"], i["elem"], i["cmp"], i["back"], i["alloc"], i["keys"], i["std"])


def flags(i):
    return ["-std=" + i["std"], "-O1", "-g1", "-fno-access-control", "-w", "-DAMC_NONSTD_FEATURES",
            "-DCFG_KIND=%d" % (0 if i["kind"] == "flatset" else 1), "-DCFG_N=%d" % i["N"], "-DCFG_ELEM=%d" % ELEMS[i["elem"]],
            "-DCFG_CMP=%d" % CMPS[i["cmp"]], "-DCFG_VEC=%d" % VECS[i["vec"]], "-DCFG_BACK=%d" % BACKS[i["back"]],
            "-DCFG_ALLOC=%d" % ALLOCS[i["alloc"]], "-DCFG_KEYS=%d" % i["keys"]] + vlib.SAN


def build(i):
    return vlib.build("explore_set.cpp", flags(i), "es-" + name(i))


def _cat(i):
    return {"TC4": "TC", "TR": "TR", "NTR": "NTR"}[i["elem"]]


def _kind(i):
    return i["kind"] if i["kind"] == "flatset" else "smallset-" + i["back"]


ENG = e1.Eng("E2", build, name, _cat, _kind)


def flat_quick():
    return [
        inst("flatset", "TC4", "less", "amcvector", opts=["--few-ranges"]),
        inst("flatset", "TR", "coarse", "smallvector2", alloc="ledgerstd", opts=["--few-ranges", "--seqlen", "2"]),
        inst("flatset", "NTR", "stateful", "amcvector", keys=5, alloc="ledgerstd", opts=["--few-ranges", "--seqlen", "2"]),
        inst("flatset", "TC4", "greater", "fixed8", opts=["--few-ranges", "--seqlen", "2"]),
        inst("flatset", "TC4", "transparent", "stdvector", opts=["--few-ranges", "--seqlen", "2"]),
        inst("flatset", "NTR", "less", "amcvector", K=2, keys=3, opts=["--few-ranges", "--seqlen", "1", "--no-ctors"]),
        inst("flatset", "TR", "greater", "amcvector", std="c++20", opts=["--few-ranges", "--seqlen", "2"]),
        # underlying FixedCapacityVector<T,3> smaller than the key domain: insertions into a FULL vector are refused
        inst("flatset", "NTR", "less", "fixed3", keys=4, opts=["--few-ranges", "--seqlen", "2"]),
    ]


def small_quick():
    return [
        inst("smallset", "TC4", "less", back="stdset", N=2, opts=["--few-ranges"]),
        inst("smallset", "TC4", "less", back="flatset", N=2, opts=["--few-ranges"]),
        inst("smallset", "NTR", "coarse", back="stdset", N=2, alloc="ledgerstd", opts=["--few-ranges", "--seqlen", "2"]),
        inst("smallset", "TR", "stateful", back="flatset", N=3, keys=5, alloc="ledgerstd", opts=["--few-ranges", "--seqlen", "2"]),
        inst("smallset", "TR", "greater", back="stdset", N=1, opts=["--few-ranges", "--seqlen", "2"]),
        inst("smallset", "NTR", "less", back="flatset", N=2, K=2, keys=3, opts=["--few-ranges", "--seqlen", "1", "--no-ctors"]),
        inst("smallset", "TC4", "transparent", back="stdset", N=2, opts=["--few-ranges", "--seqlen", "2"]),
        inst("smallset", "TC4", "less", back="stdset", N=3, std="c++20", opts=["--few-ranges", "--seqlen", "2"]),
        inst("smallset", "TC4", "less", back="stdset", N=2, K=2, keys=3, std="c++20", opts=["--few-ranges", "--seqlen", "1", "--no-ctors"]),  # <=> between sets in different states
    ]


def flat_thorough():
    m = []
    elems = ["TC4", "TR", "NTR"]
    n = 0
    for cmp in ("less", "greater", "coarse", "stateful", "transparent"):
        for vec in ("amcvector", "smallvector2", "fixed8", "stdvector"):
            el = "TC4" if cmp == "transparent" else elems[n % 3]
            al = "amc" if vec == "fixed8" else ("ledgerstd" if n % 2 else "amc")
            keys = 5 if vec == "fixed8" else 6
            m.append(inst("flatset", el, cmp, vec, alloc=al, keys=keys, opts=["--few-ranges", "--seqlen", "2"]))
            n += 1
    for el, cmp in (("TC4", "coarse"), ("TR", "greater"), ("NTR", "stateful")):
        m.append(inst("flatset", el, cmp, "fixed3", keys=5, opts=["--few-ranges", "--seqlen", "2"]))  # full underlying vector
    m.append(inst("flatset", "NTR", "less", "fixed3", K=2, keys=4, opts=["--few-ranges", "--seqlen", "1", "--no-ctors"]))
    for el in elems:
        m.append(inst("flatset", el, "less", "amcvector", keys=4, alloc="ledgerstd"))  # all range sources, sequences <= 3
        m.append(inst("flatset", el, "coarse", "smallvector2", K=2, keys=4, alloc="ledgerstd", opts=["--few-ranges", "--seqlen", "1", "--no-ctors"]))
        m.append(inst("flatset", el, "stateful", "amcvector", K=2, keys=4, opts=["--few-ranges", "--seqlen", "1", "--no-ctors"]))
        m.append(inst("flatset", el, "greater", "amcvector", keys=5, std="c++20", opts=["--few-ranges", "--seqlen", "2"]))
    return m


def small_thorough():
    m = []
    elems = ["TC4", "TR", "NTR"]
    n = 0
    for N in (1, 2, 3):
        for back in ("stdset", "flatset"):
            for cmp in ("less", "greater", "coarse", "stateful", "transparent"):
                el = "TC4" if cmp == "transparent" else elems[n % 3]
                al = "ledgerstd" if n % 2 else "amc"
                m.append(inst("smallset", el, cmp, back=back, N=N, alloc=al, keys=5, opts=["--few-ranges", "--seqlen", "2"]))
                n += 1
    for el in elems:
        for back in ("stdset", "flatset"):
            m.append(inst("smallset", el, "less", back=back, N=2, keys=4, alloc="ledgerstd"))
            m.append(inst("smallset", el, "coarse", back=back, N=2, K=2, keys=4, opts=["--few-ranges", "--seqlen", "1", "--no-ctors"]))
            m.append(inst("smallset", el, "less", back=back, N=3, keys=5, std="c++20", opts=["--few-ranges", "--seqlen", "2"]))
    return m


ASSUME = [
    "the implementation is its own transition function: every transition executes the amc headers in /repo/include and is compared with std::set built with the same comparator object",
    "states merged by a canonical key (iteration sequence, large/inline representation, underlying capacity, comparator state, 'has been large' bit); canon-on-replay checked for every expanded state",
    "key domain of 3-6 keys, sequences of at most 2-3 keys for bulk operations, pool of 1-2 sets; g++ 12 + libstdc++; std::sort is stable for the <=16 elements met here (representative of equivalent keys)",
]


def relevant(pid, i):
    if pid == "C02":
        return i["elem"] in ("TR", "NTR")
    return True


def fault_matrix(q):
    fb = ["--fault", "1" if q else "2", "--few-ranges", "--seqlen", "2"]
    m = [
        inst("flatset", "NTR", "less", "amcvector", alloc="ledgerstd", opts=fb),
        inst("flatset", "TR", "coarse", "smallvector2", alloc="ledgerstd", opts=fb),
        inst("smallset", "NTR", "less", back="stdset", N=2, alloc="ledgerstd", opts=fb),
        inst("smallset", "TR", "less", back="flatset", N=2, alloc="ledgerstd", opts=fb),
        inst("flatset", "TC4", "less", "stdvector", alloc="ledgerstd", opts=fb),
    ]
    if not q:
        m += [
            inst("flatset", "NTR", "stateful", "amcvector", alloc="ledgerstd", keys=5, opts=fb),
            inst("flatset", "TR", "greater", "fixed8", keys=4, opts=fb),
            inst("flatset", "TC4", "greater", "stdvector", alloc="ledgerstd", keys=5, opts=fb),
            inst("smallset", "NTR", "coarse", back="stdset", N=3, alloc="ledgerstd", keys=5, opts=fb),
            inst("smallset", "TR", "stateful", back="flatset", N=3, alloc="ledgerstd", keys=5, opts=fb),
            inst("smallset", "NTR", "less", back="stdset", N=1, alloc="ledgerstd", opts=fb),
        ]
    return m
