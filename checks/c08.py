"""C08 -- capacity-limit errors are clean.  Part (a): E1 on throwing FixedCapacityVector (every growing operation from
every state, including those that exceed N) and at(); part (b): 8-bit size_type grid (checks/c08 grid, added below)."""
from checks import e1


def run(ctx):
    matrix = e1.quick_matrix() if ctx.tier == "quick" else e1.thorough_matrix()
    matrix = [i for i in matrix if i["flavour"] == "fixed"] + [i for i in matrix if i["flavour"] != "fixed"][:3]
    cov = e1.explore(ctx, matrix, ["C08"])
    return ctx.finish("model_checking", cov, e1.ASSUME)
