// Element types, lifetime ledger, failure log and fault injection shared by all explorers.  C++11.
//
//  TC1/TC4/TC12 : trivially copyable, 1/4/12 bytes (exercise ElemWithPtrStorage::kNbSlots = 8 / 2 / 1)
//  TR           : declares trivially_relocatable = true_type, user-provided copy/move/dtor, identity = id carried in
//                 the object (a memmove carries the identity along)
//  NTR          : not relocatable, self == this, identity = address
//  pair<TR,TR>  : relocatable through amc's pair specialisation;  pair<TR,NTR> : must not be
//
// Fault points (throw when the running event counter hits vf::L().fault_at): value construction T(int),
// default construction, copy construction, copy assignment.  Moves are noexcept.
#pragma once
#include <cstdarg>
#include <cstdint>
#include <cstdio>
#include <cstring>
#if __cplusplus >= 202002L
#include <compare>
#endif
#include <type_traits>
#include <utility>

namespace vf {

struct InjectedFault {
  int where;
};

struct Fail {
  char tags[40];
  char msg[400];
};

struct LedgerT {
  enum { ADDR_CAP = 8192, ID_CAP = 1 << 16, FAIL_CAP = 16 };
  const void *addr[ADDR_CAP];
  int naddr;
  unsigned char id_state[ID_CAP];  // 0 never, 1 alive, 2 destroyed
  int next_id;
  int id_live;
  // element-operation counters
  long n_val_ctor, n_def_ctor, n_copy_ctor, n_move_ctor, n_copy_asg, n_move_asg, n_dtor, n_self_move, n_self_copy;
  // fault injection
  long events, fault_at;
  long faults_thrown;  // injected faults actually thrown (a callee such as std::vector::shrink_to_fit may swallow one)
  // protected address range (C07): element operations on NTR objects inside [prot_lo, prot_hi) are counted
  const char *prot_lo, *prot_hi;
  long prot_hits;
  // failure log
  Fail fails[FAIL_CAP];
  int nfail;
  long fail_total;
  bool quiet;  // do not log (used while the harness itself tears down objects after a recorded failure)

  void reset() {
    naddr = 0;
    std::memset(id_state, 0, next_id > 0 && next_id < ID_CAP ? (size_t)next_id + 1 : (size_t)ID_CAP);
    next_id = 1;
    id_live = 0;
    reset_counters();
    events = 0;
    fault_at = 0;
    faults_thrown = 0;
    prot_lo = prot_hi = 0;
    prot_hits = 0;
    nfail = 0;
    fail_total = 0;
    quiet = false;
  }
  void reset_counters() {
    n_val_ctor = n_def_ctor = n_copy_ctor = n_move_ctor = n_copy_asg = n_move_asg = n_dtor = n_self_move = n_self_copy = 0;
  }
  long elem_ops() const {
    return n_val_ctor + n_def_ctor + n_copy_ctor + n_move_ctor + n_copy_asg + n_move_asg + n_dtor;
  }
  int live() const { return naddr + id_live; }
};

inline LedgerT &L() {
  static LedgerT l;
  return l;
}

#if defined(__GNUC__)
__attribute__((format(printf, 2, 3)))
#endif
inline void fail(const char *tags, const char *fmt, ...) {
  LedgerT &l = L();
  if (l.quiet) return;
  ++l.fail_total;
  if (l.nfail >= LedgerT::FAIL_CAP) return;
  Fail &f = l.fails[l.nfail++];
  std::snprintf(f.tags, sizeof f.tags, "%s", tags);
  va_list ap;
  va_start(ap, fmt);
  std::vsnprintf(f.msg, sizeof f.msg, fmt, ap);
  va_end(ap);
}

inline void event(int where) {
  LedgerT &l = L();
  if (++l.events == l.fault_at) {
    ++l.faults_thrown;
    throw InjectedFault{where};
  }
}

// ---- address ledger (NTR) -------------------------------------------------------------------------------------
inline int addr_find(const void *p) {
  LedgerT &l = L();
  for (int i = l.naddr - 1; i >= 0; --i)
    if (l.addr[i] == p) return i;
  return -1;
}
inline void addr_touch(const void *p) {
  LedgerT &l = L();
  const char *c = static_cast<const char *>(p);
  if (c >= l.prot_lo && c < l.prot_hi) ++l.prot_hits;
}
inline void addr_born(const void *p) {
  LedgerT &l = L();
  addr_touch(p);
  if (addr_find(p) >= 0) fail("C02", "construct over a live object at %p", p);
  else if (l.naddr < LedgerT::ADDR_CAP) l.addr[l.naddr++] = p;
}
inline bool addr_alive(const void *p) { return addr_find(p) >= 0; }
inline void addr_dead(const void *p) {
  LedgerT &l = L();
  addr_touch(p);
  int i = addr_find(p);
  if (i < 0) {
    fail("C02", "destroy of a non-live object at %p (double destroy or raw memory)", p);
    return;
  }
  l.addr[i] = l.addr[--l.naddr];
}

// ---- id ledger (TR) -------------------------------------------------------------------------------------------
inline int id_born() {
  LedgerT &l = L();
  int id = l.next_id;
  if (l.next_id < LedgerT::ID_CAP - 1) ++l.next_id;
  l.id_state[id] = 1;
  ++l.id_live;
  return id;
}
inline bool id_alive(int id) { return id > 0 && id < LedgerT::ID_CAP && L().id_state[id] == 1; }
inline void id_dead(int id) {
  LedgerT &l = L();
  if (!id_alive(id)) {
    fail("C02", "destroy of TR id %d which is %s (double destroy of a bitwise duplicate or raw memory)", id,
         (id > 0 && id < LedgerT::ID_CAP && l.id_state[id] == 2) ? "already destroyed" : "unknown");
    return;
  }
  l.id_state[id] = 2;
  --l.id_live;
}

// ---------------------------------------------------------------------------------------------------------------
struct TC12 {
  int32_t v;
  int32_t pad[2];
  TC12() : v(0) {  // still trivially copyable; value-initialised elements must satisfy ok() too
    pad[0] = 0 ^ 0x5a5a;
    pad[1] = ~0;
  }
  TC12(int x) : v(x) { pad[0] = x ^ 0x5a5a; pad[1] = ~x; }
  bool ok() const { return pad[0] == (v ^ 0x5a5a) && pad[1] == ~v; }
};
inline bool operator==(const TC12 &a, const TC12 &b) { return a.v == b.v; }
inline bool operator!=(const TC12 &a, const TC12 &b) { return a.v != b.v; }
inline bool operator<(const TC12 &a, const TC12 &b) { return a.v < b.v; }
inline bool operator>(const TC12 &a, const TC12 &b) { return a.v > b.v; }
inline bool operator<=(const TC12 &a, const TC12 &b) { return a.v <= b.v; }
inline bool operator>=(const TC12 &a, const TC12 &b) { return a.v >= b.v; }
#if __cplusplus >= 202002L
inline auto operator<=>(const TC12 &a, const TC12 &b) { return a.v <=> b.v; }
#endif

/// Over-aligned trivially copyable element (alignment above max_align_t): inline storage must be placed by the
/// compiler, never by run-time rounding that depends on the container's own address.
struct alignas(32) TC32 {
  int32_t v;
  int32_t chk;
  TC32() : v(0), chk(0x1234) {}
  TC32(int x) : v(x), chk(x ^ 0x1234) {}
  bool ok() const { return chk == (v ^ 0x1234) && (reinterpret_cast<uintptr_t>(this) % 32) == 0; }
};
inline bool operator==(const TC32 &a, const TC32 &b) { return a.v == b.v; }
inline bool operator!=(const TC32 &a, const TC32 &b) { return a.v != b.v; }
inline bool operator<(const TC32 &a, const TC32 &b) { return a.v < b.v; }
inline bool operator>(const TC32 &a, const TC32 &b) { return a.v > b.v; }
inline bool operator<=(const TC32 &a, const TC32 &b) { return a.v <= b.v; }
inline bool operator>=(const TC32 &a, const TC32 &b) { return a.v >= b.v; }
#if __cplusplus >= 202002L
inline auto operator<=>(const TC32 &a, const TC32 &b) { return a.v <=> b.v; }
#endif

/// Large trivially copyable element (300 bytes, every word carries the value): byte-wise fast paths that go through a
/// fixed-size scratch buffer, or count in a narrow type, must cope with it.
struct TC300 {
  int32_t w[75];
  TC300() { fill(0); }
  TC300(int x) { fill(x); }
  void fill(int x) {
    for (int i = 0; i < 75; ++i) w[i] = x + i * 0x01010101;
  }
  bool ok() const {
    for (int i = 1; i < 75; ++i)
      if (w[i] != w[0] + i * 0x01010101) return false;
    return true;
  }
};
inline bool operator==(const TC300 &a, const TC300 &b) { return a.w[0] == b.w[0]; }
inline bool operator!=(const TC300 &a, const TC300 &b) { return a.w[0] != b.w[0]; }
inline bool operator<(const TC300 &a, const TC300 &b) { return a.w[0] < b.w[0]; }
inline bool operator>(const TC300 &a, const TC300 &b) { return a.w[0] > b.w[0]; }
inline bool operator<=(const TC300 &a, const TC300 &b) { return a.w[0] <= b.w[0]; }
inline bool operator>=(const TC300 &a, const TC300 &b) { return a.w[0] >= b.w[0]; }
#if __cplusplus >= 202002L
inline auto operator<=>(const TC300 &a, const TC300 &b) { return a.w[0] <=> b.w[0]; }
#endif

/// Declared trivially relocatable, not trivially copyable; identity is the id stored in the object.
class TR {
 public:
  using trivially_relocatable = std::true_type;
  int v;
  int id;
  int moved;

  TR() : v(0), moved(0) {
    event(1);
    ++L().n_def_ctor;
    id = id_born();
  }
  TR(int x) : v(x), moved(0) {
    event(2);
    ++L().n_val_ctor;
    id = id_born();
  }
  TR(const TR &o) : v(o.v), moved(0) {
    o.check_src("copy-construct from");
    if (o.moved) fail("C02", "TR copy-constructed from a moved-from object (id %d)", o.id);
    event(3);
    ++L().n_copy_ctor;
    id = id_born();
  }
  TR(TR &&o) noexcept : v(o.v), moved(o.moved) {
    o.check_src("move-construct from");
    ++L().n_move_ctor;
    id = id_born();
    o.moved = 1;
    o.v = -777;
  }
  TR &operator=(const TR &o) {
    o.check_src("copy-assign from");
    check_src("copy-assign to");
    if (o.moved) fail("C02", "TR copy-assigned from a moved-from object (id %d)", o.id);
    event(4);
    ++L().n_copy_asg;
    if (this == &o) {
      ++L().n_self_copy;
      return *this;
    }
    v = o.v;
    moved = 0;
    return *this;
  }
  TR &operator=(TR &&o) noexcept {
    o.check_src("move-assign from");
    check_src("move-assign to");
    ++L().n_move_asg;
    if (this == &o) {
      ++L().n_self_move;
      // like many real types (libstdc++ containers, "release then steal" handles) a self move-assignment clobbers the value
      fail("C01,C02", "TR move-assigned onto itself (id %d value %d)", id, v);
      moved = 1;
      v = -777;
      return *this;
    }
    v = o.v;
    moved = o.moved;
    o.moved = 1;
    o.v = -777;
    return *this;
  }
  ~TR() {
    ++L().n_dtor;
    id_dead(id);
  }
  void check_src(const char *what) const {
    if (!id_alive(id)) fail("C02", "TR %s an object outside its lifetime (id %d)", what, id);
  }
};
inline bool operator==(const TR &a, const TR &b) { return a.v == b.v; }
inline bool operator!=(const TR &a, const TR &b) { return a.v != b.v; }
inline bool operator<(const TR &a, const TR &b) { return a.v < b.v; }
inline bool operator>(const TR &a, const TR &b) { return a.v > b.v; }
inline bool operator<=(const TR &a, const TR &b) { return a.v <= b.v; }
inline bool operator>=(const TR &a, const TR &b) { return a.v >= b.v; }
#if __cplusplus >= 202002L
inline auto operator<=>(const TR &a, const TR &b) { return a.v <=> b.v; }
#endif

/// Not relocatable: keeps a pointer to itself; identity is the address.
class NTR {
 public:
  int v;
  int moved;
  const NTR *self;

  NTR() : v(0), moved(0), self(this) {
    event(1);
    ++L().n_def_ctor;
    addr_born(this);
  }
  NTR(int x) : v(x), moved(0), self(this) {
    event(2);
    ++L().n_val_ctor;
    addr_born(this);
  }
  NTR(const NTR &o) : v(o.v), moved(0), self(this) {
    o.check("copy-construct from");
    if (o.moved) fail("C02", "NTR copy-constructed from a moved-from object");
    event(3);
    ++L().n_copy_ctor;
    addr_born(this);
  }
  NTR(NTR &&o) noexcept : v(o.v), moved(o.moved), self(this) {
    o.check("move-construct from");
    ++L().n_move_ctor;
    addr_born(this);
    o.moved = 1;
    o.v = -777;
    addr_touch(&o);
  }
  NTR &operator=(const NTR &o) {
    o.check("copy-assign from");
    check("copy-assign to");
    if (o.moved) fail("C02", "NTR copy-assigned from a moved-from object");
    event(4);
    ++L().n_copy_asg;
    addr_touch(this);
    if (this == &o) {
      ++L().n_self_copy;
      return *this;
    }
    v = o.v;
    moved = 0;
    return *this;
  }
  NTR &operator=(NTR &&o) noexcept {
    o.check("move-assign from");
    check("move-assign to");
    ++L().n_move_asg;
    addr_touch(this);
    addr_touch(&o);
    if (this == &o) {
      ++L().n_self_move;
      fail("C01,C02", "NTR move-assigned onto itself (value %d)", v);
      moved = 1;
      v = -777;
      return *this;
    }
    v = o.v;
    moved = o.moved;
    o.moved = 1;
    o.v = -777;
    return *this;
  }
  ~NTR() {
    ++L().n_dtor;
    if (self != this) fail("C02", "NTR destroyed at %p but self=%p (moved by raw byte copy)", (const void *)this, (const void *)self);
    addr_dead(this);
  }
  void check(const char *what) const {
    if (!addr_alive(this)) fail("C02", "NTR %s an object outside its lifetime at %p", what, (const void *)this);
    else if (self != this)
      fail("C02", "NTR %s an object whose self pointer is stale (raw byte copy of a non-relocatable type)", what);
  }
};
inline bool operator==(const NTR &a, const NTR &b) { return a.v == b.v; }
inline bool operator!=(const NTR &a, const NTR &b) { return a.v != b.v; }
inline bool operator<(const NTR &a, const NTR &b) { return a.v < b.v; }
inline bool operator>(const NTR &a, const NTR &b) { return a.v > b.v; }
inline bool operator<=(const NTR &a, const NTR &b) { return a.v <= b.v; }
inline bool operator>=(const NTR &a, const NTR &b) { return a.v >= b.v; }
#if __cplusplus >= 202002L
inline auto operator<=>(const NTR &a, const NTR &b) { return a.v <=> b.v; }
#endif

typedef std::pair<TR, TR> PTT;
typedef std::pair<TR, NTR> PTN;

// ---- uniform access -------------------------------------------------------------------------------------------
// make(v): build a value; val(e): read it; sane(e, why): identity/liveness check of a visible element;
// tracked: has a ledger; ident(e): identity token comparable before/after an operation.
template <class T, class = void>
struct El {  // integral
  static const bool tracked = false;
  static T make(int v) { return static_cast<T>(v); }
  static int val(const T &e) { return static_cast<int>(e); }
  static bool sane(const T &, const char **) { return true; }
  static long ident(const T &e) { return static_cast<long>(e); }
  static const char *name() { return sizeof(T) == 1 ? "TC1" : sizeof(T) == 4 ? "TC4" : "TCx"; }
  static const char *cat() { return "TC"; }
};
/// signed one-byte elements with NEGATIVE values: value v is stored as -v when v is odd (comparisons of the containers
/// are checked against std::vector<T>, so the mapping need not be monotone)
template <>
struct El<signed char> {
  typedef signed char T;
  static const bool tracked = false;
  static T make(int v) { return static_cast<T>((v & 1) ? -v : v); }
  static int val(const T &e) { return e < 0 ? -static_cast<int>(e) : static_cast<int>(e); }
  static bool sane(const T &, const char **) { return true; }
  static long ident(const T &e) { return static_cast<long>(e); }
  static const char *name() { return "TCS1"; }
  static const char *cat() { return "TC"; }
};
template <>
struct El<TC12> {
  static const bool tracked = false;
  static TC12 make(int v) { return TC12(v); }
  static int val(const TC12 &e) { return e.v; }
  static bool sane(const TC12 &e, const char **why) {
    if (!e.ok()) {
      *why = "TC12 padding corrupted (partial byte copy)";
      return false;
    }
    return true;
  }
  static long ident(const TC12 &e) { return e.v; }
  static const char *name() { return "TC12"; }
  static const char *cat() { return "TC"; }
};
template <>
struct El<TC32> {
  static const bool tracked = false;
  static TC32 make(int v) { return TC32(v); }
  static int val(const TC32 &e) { return e.v; }
  static bool sane(const TC32 &e, const char **why) {
    if (!e.ok()) {
      *why = "TC32 element corrupted or misaligned (over-aligned element not on a 32-byte boundary)";
      return false;
    }
    return true;
  }
  static long ident(const TC32 &e) { return e.v; }
  static const char *name() { return "TC32"; }
  static const char *cat() { return "TC"; }
};
template <>
struct El<TC300> {
  static const bool tracked = false;
  static TC300 make(int v) { return TC300(v); }
  static int val(const TC300 &e) { return e.w[0]; }
  static bool sane(const TC300 &e, const char **why) {
    if (!e.ok()) {
      *why = "TC300 element torn (partially copied or overlapped)";
      return false;
    }
    return true;
  }
  static long ident(const TC300 &e) { return e.w[0]; }
  static const char *name() { return "TC300"; }
  static const char *cat() { return "TC"; }
};
template <>
struct El<TR> {
  static const bool tracked = true;
  static TR make(int v) { return TR(v); }
  static int val(const TR &e) { return e.v; }
  static bool sane(const TR &e, const char **why) {
    if (!id_alive(e.id)) {
      *why = "visible TR element is not alive";
      return false;
    }
    if (e.moved) {
      *why = "visible TR element is moved-from";
      return false;
    }
    return true;
  }
  static long ident(const TR &e) { return e.id; }
  static const char *name() { return "TR"; }
  static const char *cat() { return "TR"; }
};
template <>
struct El<NTR> {
  static const bool tracked = true;
  static NTR make(int v) { return NTR(v); }
  static int val(const NTR &e) { return e.v; }
  static bool sane(const NTR &e, const char **why) {
    if (!addr_alive(&e)) {
      *why = "visible NTR element is not alive";
      return false;
    }
    if (e.self != &e) {
      *why = "visible NTR element has a stale self pointer";
      return false;
    }
    if (e.moved) {
      *why = "visible NTR element is moved-from";
      return false;
    }
    return true;
  }
  static long ident(const NTR &e) { return reinterpret_cast<long>(&e); }
  static const char *name() { return "NTR"; }
  static const char *cat() { return "NTR"; }
};
template <class A, class B>
struct El<std::pair<A, B> > {
  typedef std::pair<A, B> P;
  static const bool tracked = true;
  static P make(int v) { return P(A(v), B(v)); }
  static int val(const P &e) { return El<A>::val(e.first) == El<B>::val(e.second) ? El<A>::val(e.first) : -999; }
  static bool sane(const P &e, const char **why) { return El<A>::sane(e.first, why) && El<B>::sane(e.second, why); }
  static long ident(const P &e) { return El<A>::ident(e.first) * 1000003L + El<B>::ident(e.second); }
  static const char *name() { return std::is_same<B, NTR>::value ? "PTN" : "PTT"; }
  static const char *cat() { return std::is_same<B, NTR>::value ? "NTR" : "TR"; }
};

// what the property text allows: raw byte moves only for trivially copyable types or types declaring the trait
template <class T>
struct expect_reloc : std::integral_constant<bool, std::is_trivially_copyable<T>::value> {};
template <>
struct expect_reloc<TR> : std::true_type {};
template <>
struct expect_reloc<NTR> : std::false_type {};
template <class A, class B>
struct expect_reloc<std::pair<A, B> > : std::integral_constant<bool, expect_reloc<A>::value && expect_reloc<B>::value> {};

// number of ledger objects per element (pairs hold two)
template <class T>
struct ObjsPer {
  static const int value = El<T>::tracked ? 1 : 0;
};
template <class A, class B>
struct ObjsPer<std::pair<A, B> > {
  static const int value = 2;
};

}  // namespace vf
