// C20 oracle (iii): the shared const containers and every heap buffer they own live in an mmap'd arena that is
// PROT_READ while the readers run.  A const member that writes to the shared object faults deterministically,
// whatever the schedule; the SIGSEGV handler prints the address + scenario + schedule and _exit(77)s.
//
// ArenaAlloc<T> is a std-conforming, stateless allocator (all instances equal).  Allocations go to arena 0 until
// freeze(); afterwards (a reader's private copy, the private mutator) they go to arena 1, which stays writable and is
// recycled before each schedule.
#pragma once

#include <signal.h>
#include <sys/mman.h>
#include <unistd.h>

#include <atomic>
#include <cstddef>
#include <cstdio>
#include <cstdlib>
#include <cstring>
#include <new>

namespace c20 {

struct Arena {
  char *base = nullptr;
  size_t cap = 0;
  std::atomic<size_t> off{0};
};

inline Arena g_arena[2];
inline std::atomic<int> g_frozen{0};  // index of the arena allocations currently come from
inline char g_fault_ctx[4096];        // "scenario=... schedule=..." for the fault message (kept current by the harness)

inline void arena_init(size_t shared_bytes = 1 << 20, size_t private_bytes = 8 << 20) {
  size_t caps[2] = {shared_bytes, private_bytes};
  for (int i = 0; i < 2; i++) {
    void *p = mmap(nullptr, caps[i], PROT_READ | PROT_WRITE, MAP_PRIVATE | MAP_ANONYMOUS, -1, 0);
    if (p == MAP_FAILED) {
      perror("mmap");
      _exit(3);
    }
    g_arena[i].base = static_cast<char *>(p);
    g_arena[i].cap = caps[i];
    g_arena[i].off = 0;
  }
}

inline void *arena_alloc(size_t bytes, size_t align = 16) {
  Arena &a = g_arena[g_frozen.load(std::memory_order_relaxed)];
  size_t need = (bytes + align - 1) / align * align;
  if (need == 0) need = align;
  size_t at = a.off.fetch_add(need, std::memory_order_relaxed);
  if (at + need > a.cap) {
    fprintf(stderr, "C20-HARNESS-ERROR: arena %d exhausted\n", g_frozen.load());
    _exit(3);
  }
  return a.base + at;
}

inline bool in_frozen_arena(const void *p) {
  const char *c = static_cast<const char *>(p);
  return g_arena[0].base && c >= g_arena[0].base && c < g_arena[0].base + g_arena[0].cap;
}

// shared arena: writable again + emptied (a new container kind is about to be built)
inline void arena_thaw_and_reset() {
  if (mprotect(g_arena[0].base, g_arena[0].cap, PROT_READ | PROT_WRITE) != 0) _exit(3);
  g_frozen = 0;
  g_arena[0].off = 0;
  g_arena[1].off = 0;
}
inline void arena_freeze() {
  if (mprotect(g_arena[0].base, g_arena[0].cap, PROT_READ) != 0) _exit(3);
  g_frozen = 1;
}
inline void arena_recycle_private() { g_arena[1].off = 0; }  // all private objects of the previous schedule are dead

template <class T>
struct ArenaAlloc {
  using value_type = T;
  using size_type = size_t;
  using difference_type = ptrdiff_t;
  using pointer = T *;
  using const_pointer = const T *;
  using is_always_equal = std::true_type;
  template <class U>
  struct rebind {
    using other = ArenaAlloc<U>;
  };
  ArenaAlloc() noexcept = default;
  template <class U>
  ArenaAlloc(const ArenaAlloc<U> &) noexcept {}
  T *allocate(size_t n) { return static_cast<T *>(arena_alloc(n * sizeof(T), alignof(T) > 16 ? alignof(T) : 16)); }
  void deallocate(T *, size_t) noexcept {}  // bump allocator: memory is recycled wholesale
  template <class U>
  bool operator==(const ArenaAlloc<U> &) const noexcept {
    return true;
  }
  template <class U>
  bool operator!=(const ArenaAlloc<U> &) const noexcept {
    return false;
  }
};

// SIGSEGV handler: a write into the frozen arena is the oracle firing; any other fault is reported as a crash.
inline void on_segv(int sig, siginfo_t *si, void *) {
  char buf[4600];
  const void *addr = si ? si->si_addr : nullptr;
  int n;
  if (sig == SIGSEGV && in_frozen_arena(addr))
    n = snprintf(buf, sizeof buf, "WRITE-TO-FROZEN addr=%p offset=%td %s\n", addr,
                 static_cast<const char *>(addr) - g_arena[0].base, g_fault_ctx);
  else
    n = snprintf(buf, sizeof buf, "CRASH signal=%d addr=%p %s\n", sig, addr, g_fault_ctx);
  if (write(2, buf, static_cast<size_t>(n)) < 0) {
  }
  _exit(sig == SIGSEGV && in_frozen_arena(addr) ? 77 : 78);
}

inline void install_fault_handler() {
  struct sigaction sa;
  memset(&sa, 0, sizeof sa);
  sa.sa_sigaction = on_segv;
  sa.sa_flags = SA_SIGINFO;
  sigaction(SIGSEGV, &sa, nullptr);
  sigaction(SIGBUS, &sa, nullptr);
  sigaction(SIGABRT, &sa, nullptr);  // assert() inside amc, std::terminate: reported as CRASH with the context
  sigaction(SIGFPE, &sa, nullptr);
  sigaction(SIGILL, &sa, nullptr);
}

}  // namespace c20
