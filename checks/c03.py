"""C03 -- FlatSet is observationally a std::set for every operation history (E2)."""
from checks import e1, e2


def run(ctx):
    matrix = e2.flat_quick() if ctx.tier == "quick" else e2.flat_thorough()
    cov = e1.explore(ctx, matrix, ["C03"], engine="E2", eng=e2.ENG)
    return ctx.finish("model_checking", cov, e2.ASSUME)
