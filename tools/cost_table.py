#!/usr/bin/env python3
"""cost_table.py [<thorough-run-log> ...]: regenerate the table of DESIGN.md section 8 between the COST-TABLE markers from
evidence/*.json (quick tier, written by the last quick run on /repo) and, if given, the log of tools/run_thorough.sh."""
import json, re, sys, glob, os
V = "/verif"
def summ(c):
    if not c: return "-"
    if "states" in c and c.get("states"):
        s = "%s states / %s transitions" % (f"{c['states']:,}", f"{c['transitions']:,}")
        if c.get("fault_transitions"): s += " (%s faulted)" % f"{c['fault_transitions']:,}"
        for k, lab in (("bulk_grid_points", "bulk grid points"), ("grid_evaluations", "boundary grid points"), ("large_index_grid_points", "large-index grid points"), ("reallocate_grid_points", "reallocate grid points"), ("schedules", "schedules")):
            if c.get(k): s += " + %s %s" % (f"{c[k]:,}", lab)
        return s
    if "evaluations" in c: return "%s evaluations (%s distinct non-trivial)" % (f"{c['evaluations']:,}", f"{c.get('distinct_nontrivial', 0):,}")
    return "-"
thor = {}
for logf in sys.argv[1:]:  # several logs: a later one overrides an earlier one per check
    for line in open(logf):
        m = re.match(r"== (C\d\d) rc=(\d+) wall=(\d+)s", line)
        if m: thor[m.group(1)] = {"wall": int(m.group(3)), "rc": int(m.group(2))}
        m = re.match(r"(C\d\d) thorough: (\{.*\})\s+wall=", line)
        if m:
            try: thor.setdefault(m.group(1), {})["cov"] = json.loads(m.group(2))
            except ValueError: pass
        elif re.match(r"C\d\d thorough: \{", line):  # line cut short by the runner: take the leading counters
            pid = line[:3]
            c = {k: int(v) for k, v in re.findall(r'"(states|transitions|schedules|scenarios)": (\d+)', line)}
            if c:
                c["exhaustive"] = None
                thor.setdefault(pid, {})["cov"] = c
rows = ["| Check | quick tier: covered | quick wall | thorough tier: covered | thorough wall | bounds completed |", "|---|---|---|---|---|---|"]
for f in sorted(glob.glob(V + "/evidence/C*.json")):
    d = json.load(open(f)); pid = d["property_id"]; c = d.get("coverage", {})
    t = thor.get(pid, {})
    tc = t.get("cov")
    rows.append("| %s | %s | %.0f s | %s | %s | %s |" % (pid, summ(c), d.get("wall_s", 0), summ(tc) if tc else "-", ("%d s" % t["wall"]) if "wall" in t else "-",
                                                 ("per phase, caps in the evidence" if tc.get("exhaustive", True) is None else "yes" if tc.get("exhaustive", True) else "NO (deadline)") if tc else "-"))
s = open(V + "/DESIGN.md").read()
a, b = "<!-- COST-TABLE-BEGIN -->", "<!-- COST-TABLE-END -->"
if a in s:
    s = s[:s.index(a) + len(a)] + "\n" + "\n".join(rows) + "\n" + s[s.index(b):]
    open(V + "/DESIGN.md", "w").write(s)
print("\n".join(rows))
