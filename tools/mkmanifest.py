#!/usr/bin/env python3
"""Regenerate MANIFEST.json from the table below (claimed checks) -- keeps the file valid and current."""
import json
import os

HERE = os.path.dirname(os.path.dirname(os.path.abspath(__file__)))

E1_NOTE = ("bounded: container sizes <= L (4..7), pool of 1-2 containers, one (flavour,N,element,size_type,allocator) per instantiation; "
           "states merged by a canonical key (argument: vector code is data independent; canon-on-replay asserted); g++12/libstdc++; always-equal allocators; noexcept moves")

CHECKS = {
    "C01": dict(engine="E1", cat="model_checking", ref="4/C01",
                text="Explicit-state BFS to the fixpoint over the real vector headers: every public operation with every position/count/range-source/aliasing argument from every reachable (size words, storage mode, contents pattern) state of a container pool, each transition replayed on fresh objects and compared with std::vector (contents, returned values and positions, comparisons, at()). Exhaustive within the size bound, which is what a property over all histories needs and a test script cannot give.",
                note=E1_NOTE, tech="explicit-state BFS over the real implementation (history replay), std::vector reference model"),
    "C02": dict(engine="E1", cat="model_checking", ref="4/C02",
                text="Same exhaustive history exploration with identity-tracking element types: an id ledger for the declared-relocatable type (memmove carries the id), an address ledger plus self pointer for the non-relocatable one; every construct/assign/destroy is checked against the ledger, live-object count equals the sum of sizes after every transition and zero after the pool is destroyed.",
                note=E1_NOTE + "; sets are covered by the E2 run of the same check", tech="explicit-state BFS over the real implementation with per-object lifetime ledger"),
    "C03": dict(engine="E2", cat="model_checking", ref="4/C03",
                text="Explicit-state BFS over real FlatSets (every comparator kind incl. coarse, stateful and transparent; every underlying vector) against std::set built with the same comparator object: every insert/hint/range/node/erase/merge/extract/swap/copy/move/vector-adoption operation for every key, hint and position from every reachable state; iteration sequence, returned booleans/counts/bounds/positions and node ownership compared on every transition; calls through a default-constructed comparator are flagged.",
                note="key domain 3-6 keys, bulk sequences <= 2-3 keys, pool 1-2 sets; canonical-key merging with canon-on-replay; g++12/libstdc++", tech="explicit-state BFS over the real implementation, std::set reference model"),
    "C04": dict(engine="E2", cat="model_checking", ref="4/C04",
                text="Same exploration over SmallSet<N=1..3> on both backings (std::set and FlatSet): reachable states include inline (every insertion order), large, large shrunk below N, drained and refilled; contents compared as a set, plus sizes, membership, insertion booleans, erase counts, node ownership and the six comparison operators against every pool member in any representation; merge with sets of another N.",
                note="as C03; both backings are compared with the same std::set model, hence with each other", tech="explicit-state BFS over the real implementation, std::set reference model"),
    "C11": dict(engine="E2", cat="model_checking", ref="4/C11",
                text="At every reachable SmallSet state: begin..end and rbegin..rend walks (step-bounded), find/insert/emplace/hint for every key, erase(pos) at every position, erase(first,last) for every range and the erase-while-iterating loop for every predicate over the key domain (2^k); returned iterators must be end() or designate the expected/remaining element; a stale iterator shows as a runaway loop, bad_variant_access or assertion and is reported with its history.",
                note="as C04", tech="explicit-state BFS over the real implementation with iterator-contract oracles"),
    "C05": dict(engine="E1", cat="model_checking", ref="4/C05",
                text="Same exploration with a reference automaton 'still entitled to inline storage' per container; while entitled every operation window must show zero allocator calls and zero malloc (ASan malloc hook), capacity()==N and data() inside the object; FixedCapacityVector: zero malloc always and begin() constant.",
                note=E1_NOTE, tech="explicit-state BFS over the real implementation, malloc-hook and allocator-ledger oracle"),
    "C06": dict(engine="E1", cat="model_checking", ref="4/C06",
                text="Same exploration over ledger allocators (std-like with exact-count checking, one offering reallocate that always moves the block, a byte-level basic allocator under amc's BasicAllocatorWrapper): every deallocate/reallocate is checked against the pointer->count ledger and the ledger must be empty after every history.",
                note=E1_NOTE, tech="explicit-state BFS over the real implementation with allocator ledger"),
    "C07": dict(engine="E1", cat="model_checking", ref="4/C07",
                text="Same exploration recording data(), capacity(), element identities and element-operation counters around every transition: capacity monotone except shrink/move/swap, reserve honoured, no reallocation and untouched prefix when the result fits, buffer hand-over with zero element operations for move/swap of heap-backed vectors.",
                note=E1_NOTE, tech="explicit-state BFS over the real implementation, before/after address and identity snapshots"),
    "C08": dict(engine="E1+E4", cat="model_checking", ref="4/C08",
                text="E1 on throwing FixedCapacityVector drives every growing operation from every reachable state including all calls that exceed N (expected: out_of_range, state unchanged); a complete grid near the maximum of 8-bit size types covers overflow_error for dynamic vectors; at(i) for every i in [0,size+2).",
                note=E1_NOTE, tech="explicit-state BFS plus complete boundary grid on the real implementation"),
    "C09": dict(engine="E3", cat="fault_enumeration", ref="4/C09",
                text="On top of the E1/E2 state sets: for every explored (state, operation) the number E of throwing events inside the operation (element value/default/copy construction, copy assignment, allocate/reallocate) is measured and the history is replayed E times with the k-th event throwing, for EVERY k. After the fault: ledgers balanced, every visible element alive and not moved-from, documented strong-guarantee operations left the contents unchanged, const sources untouched; the state the fault left behind is then explored like any other (every further operation, destruction), with a second fault allowed in the thorough tier.",
                note=E1_NOTE + "; fault points are those of the instrumented element types and ledger allocators (std::bad_alloc / a private exception type); sets: basic guarantee = still a valid set equal to some std::set", tech="exhaustive fault-point enumeration over the explored state set of the real implementation"),
    "C10": dict(engine="E1", cat="model_checking", ref="4/C10",
                text="The aliasing forms (push_back(v[s]), emplace_back(v[s]), insert(p,v[s]), insert(p,n,v[s]), emplace(p,v[s]), resize(n,v[s]), assign(n,v[s]), append(n,v[s])) are operations of the E1 alphabet: every position p, source index s and count 0..3 from every reachable state (exactly full, one spare slot, ample spare capacity, inline and heap) with sizes up to 5-6, compared with std::vector, which copies first.",
                note=E1_NOTE, tech="explicit-state BFS over the real implementation (complete position x source x count x capacity-state grid)"),
    "C12": dict(engine="E2", cat="model_checking", ref="4/C12",
                text="E2 restricted to insert/erase (to reach every subset of the key domain, with exact and spare capacity) plus insert(hint,const&), insert(hint,&&), emplace_hint for EVERY hint in [begin,end] and EVERY value (present, absent below/between/above): the resulting sequence must equal std::set's and the returned iterator must designate the element equivalent to the value; comparators less/greater/coarse, four underlying vectors.",
                note="all 2^k subsets of k keys (k=6 quick, 9 thorough); g++12/libstdc++", tech="explicit-state BFS over the real implementation (complete content x hint x value grid)"),
    "C13": dict(engine="E1s", cat="model_checking", ref="4/C13",
                text="BFS over a heterogeneous pair (A a; B b) for ordered pairs of flavour/N/size_type/allocator configurations: shaping operations (push/pop/clear/reserve/shrink/adopt a heap buffer smaller than N/fill near the 8-bit limit) reach every operand state; a.swap2(b) and b.swap2(a) run from every reachable pair state; impossible exchange => exception and both sequences unchanged, otherwise sequences exchanged; identity and allocator ledgers balanced; both operands are explored further afterwards.",
                note="sizes <= 4-6 plus sizes 250..300 for 8-bit size types; 10 ordered pairs quick, all 64 thorough; states keyed by (size, capacity, inline?) of both operands", tech="explicit-state BFS over the real implementation (pair states), ledger oracles"),
    "C14": dict(engine="E1+E2", cat="model_checking", ref="4/C14",
                text="E1/E2 in relocation mode: each container whose type claims trivially_relocatable is memcpy'd to another buffer (source poisoned, never destroyed) before the checked operation of every transition (thorough: after every operation of every history too); all contents/lifetime/allocator oracles then apply to the relocated object. Instantiations with non-relocatable parts must not claim the trait.",
                note=E1_NOTE, tech="explicit-state BFS over the real implementation with byte-wise relocation injected at every state"),
    "C15": dict(engine="E-mem", cat="fault_enumeration", ref="4/C15",
                text="Every memory algorithm x length x iterator kind x value category x EVERY throw index, under -std=c++11/14/17/20 (separate builds so both the emulations and the std:: branches run), compared with a reference written from the standard's wording and with std:: itself; ledger shows all created objects destroyed and relocate sources alive after a throw.",
                note="lengths 0..3 (quick) / 0..5 (thorough); g++ (and clang++ in thorough); forked per group so UB crashes are attributed to a case",
                tech="exhaustive enumeration of cases x fault indices on the real implementation"),
    "C16": dict(engine="E5", cat="exploration", ref="4/C16",
                text="A C++11 replayer (public API only) enumerates every operation sequence up to depth 3 (quick) / 4 (thorough) over a 28-36 operation alphabet for six vector, three FlatSet and (C++17) two SmallSet instantiations; it is built in 6 (quick) / 36 (thorough) configurations of {c++11,14,17,20} x {extras, pedantic} x {NDEBUG, assertions} x {-O0,-O2} and all builds offering the same feature set must print byte-identical transcript digests; build probes check that features a configuration does not offer fail to compile there.",
                note="differential oracle (no expected values): identical transcripts across configurations; element-operation counts excluded; g++ 12 (+clang++ in thorough)", tech="exhaustive bounded enumeration of operation sequences, cross-configuration transcript comparison"),
    "C17": dict(engine="E7", cat="exploration", ref="4/C17",
                text="Complete enumeration of a bounded configuration matrix (element shapes x categories x N x size_type x standard): every cell is decided by the compiler in a generated TU and compared with an oracle computed independently in Python from the property text.",
                note="compile-time facts only; g++ (clang++ in thorough); matrix bounds in the evidence file", tech="exhaustive enumeration of the configuration matrix (compiler-decided cells vs independent oracle)"),
    "C18": dict(engine="E4", cat="exploration", ref="4/C18",
                text="Complete grid: from every start state (empty, inline with j elements, after reserve(r) for every r<=64, after shrink_to_fit) append one by one up to n=4096 (quick) / 100000 (thorough) and check AT EVERY n: reallocations <= 2*ceil(log2 n)+4, relocated elements <= 6n+16, every growth step >= ceil(1.5*cap) unless clamped by size_type; reserve(n): one allocator call, capacity >= n; shrink_to_fit: capacity == size or N inline. Allocator calls counted by ledger allocators (with and without reallocate), 8/16/64-bit and signed size types.",
                note="bounds exactly as stated in the property; the grid is complete within n <= NMAX", tech="exhaustive enumeration of (start state, n) with running-bound check on the real implementation"),
    "C19": dict(engine="E4", cat="exploration", ref="4/C19",
                text="Counting comparator; every n in 0..128 (thorough: to 4096), every key rank present and absent, every lookup (find/contains/count/lower_bound/upper_bound/equal_range) and the position search of insert/emplace/erase: calls <= 2*ceil(log2(n+1))+4; every CORRECT hint for every key: <= 8 calls and the maximum for n in [8,16) equals the maximum for n>=100 (independence of n measured, not assumed); inline SmallSet<N> lookups <= 2N+2 for N in {1,2,3,5,8,16}, every fill level and key.",
                note="three underlying vectors x two comparators", tech="exhaustive enumeration of (n, key rank, operation) with comparator-call counting on the real implementation"),
    "C20": dict(engine="E6", cat="model_checking", ref="4/C20",
                text="Real threads under a serialising scheduler (raw futex hand-off): all interleavings at operation granularity and every single preemption at function-entry granularity for 2-3 reader threads on shared const containers; oracles: results equal the sequential ones, ThreadSanitizer silent (controlled and free-running passes; self-test proves the scheduler does not blind it), shared objects live in an mprotect'ed arena so any write by a const member faults, nm shows no writable statics under amc::.",
                note="preemption bound 1 at function-entry granularity, unbounded at operation granularity; TSan models C++ happens-before, not hardware reordering; g++12/libstdc++",
                tech="stateless model checking: preemption-bounded schedule enumeration over real threads + TSan + frozen arena"),
}

NOT_YET = {
}

ENGINES = [
    dict(name="E1", path="src/explore_vec.cpp", serves_properties=["C01", "C02", "C05", "C06", "C07", "C08", "C10", "C14"], kind_free_text="explicit-state BFS over real vector instantiations with reference model and ledgers"),
    dict(name="E1s", path="src/explore_swap2.cpp", serves_properties=["C13"], kind_free_text="explicit-state BFS over a heterogeneous pair of vectors for swap2"),
    dict(name="E2", path="src/explore_set.cpp", serves_properties=["C02", "C03", "C04", "C05", "C11", "C14"], kind_free_text="explicit-state BFS over real FlatSet/SmallSet instantiations against std::set"),
    dict(name="E3", path="src/explore_vec.cpp --fault / src/explore_set.cpp --fault", serves_properties=["C09"], kind_free_text="fault-index enumeration over every explored (state, operation) of E1/E2"),
    dict(name="E-mem", path="src/c15/c15.cpp", serves_properties=["C15"], kind_free_text="exhaustive case x fault-index enumeration of the memory algorithms per language standard"),
    dict(name="E4", path="src/grid_c08.cpp src/grid_c18.cpp src/grid_c19.cpp", serves_properties=["C08", "C18", "C19"], kind_free_text="complete grid enumerators (boundary sizes, growth, comparator-call counts)"),
    dict(name="E5", path="src/c16/replayer.cpp", serves_properties=["C16"], kind_free_text="C++11 replayer enumerating all bounded operation sequences, compared across build configurations"),
    dict(name="E6", path="src/c20/harness.cpp", serves_properties=["C20"], kind_free_text="preemption-bounded schedule explorer over real threads (serialising scheduler)"),
    dict(name="E7", path="checks/c17.py", serves_properties=["C17"], kind_free_text="generated static matrix, compiler-decided cells vs Python oracle"),
]


def main():
    checks = []
    for pid in sorted(CHECKS):
        c = CHECKS[pid]
        checks.append({
            "property_id": pid,
            "quick_cmd": "python3 bin/check %s --tier quick" % pid,
            "thorough_cmd": "python3 bin/check %s --tier thorough" % pid,
            "evidence_file": "evidence/%s.json" % pid,
            "replay_cmd_template": "python3 bin/replay {path}",
            "engine": c["engine"],
            "level_claimed": {"category": c["cat"], "text": c["text"], "design_ref": "DESIGN.md section " + c["ref"]},
            "level_note": c["note"],
            "technique": c["tech"],
        })
    m = {
        "version": 1,
        "setup_cmd": "python3 bin/setup",
        "hooks": {
            "guard": "AMC_VERIF",
            "enable": "no source hooks exist: the harness drives the public API of the unmodified headers; private words are only read (-fno-access-control + detection idiom) to refine state keys",
            "baseline_off_cmd": "bash bin/baseline /repo",
            "source_commits": [],
            "add_only": True,
        },
        "engines": ENGINES,
        "checks": checks,
        "notes": "see DESIGN.md; known_findings.json lists genuine defects found (fixed: entries name the fix: commit in /repo)",
        "not_applicable": [{"property_id": p, "reason": r} for p, r in sorted(NOT_YET.items()) if p not in CHECKS],
    }
    with open(os.path.join(HERE, "MANIFEST.json"), "w") as fh:
        json.dump(m, fh, indent=1)
    print("MANIFEST.json: %d checks, %d not claimed" % (len(checks), len(m["not_applicable"])))


if __name__ == "__main__":
    main()
