// C20 harness + schedule explorer.
//
// One binary, three uses:
//   --scenario ID --schedule S        run ONE schedule of one scenario (stand-alone replayer, prints OBS lines)
//   --tier T --phase P --shard k/K    explore every scenario of the tier's phase that falls in the shard (DFS of
//                                     iterative context bounding, one `S ...` line per scenario); --resume N skips
//                                     scenarios with index < N (used after a crash = violation), --pin c binds the
//                                     process to one CPU (only one thread runs at a time; cross-CPU futex wake-ups
//                                     are ~10x slower than same-CPU ones), --budget-s stops cleanly when time is up
//                                     --max-points P: a scenario whose default schedule has more than P points is
//                                     not expanded (reported with a `K` line, never counted as covered)
//   --tier T --phase op --free R --free-big R2   free-running pass (no scheduler, real concurrency): R repetitions
//                                     per scenario, R2 for scenarios with more than 3 operations
//
// Builds (see checks/c20.py):
//   plain/fine : -DC20_ARENA=1 -finstrument-functions       oracles (i) results and (iii) frozen arena
//   tsan       : -DC20_ARENA=0 -fsanitize=thread             oracles (i) and (ii); amc::allocator (malloc) is used so
//                                                            that SimpleAllocator itself is under test
// sched.c is linked into both, compiled without either instrumentation.
//
// Scenario id:  <kind>:<gran>:b<bound>:<ops of thread 0>/<ops of thread 1>[/<ops of thread 2>]
//   gran  = op (scheduling points at thread start/exit and operation boundaries only)
//         | fn (additionally EVERY function entry inside an operation: amc, libstdc++ templates, harness helpers;
//               needs the build with -finstrument-functions, C20_FINE=1)
//         | fa (additionally every function entry of code outside /usr -- amc and harness helpers, not the libstdc++
//               internals; build with -finstrument-functions-exclude-file-list=/usr/include,/usr/lib, C20_FINE=2)
//   bound = U (all interleavings) | 0 | 1 | 2 ... (preemption bound)
//   ops   = '+'-joined operation names of the kind's menu, e.g.  flatset:fn:b1:find_hit+eq/copy
// Schedule: comma list of choices, `c*n` = choice c repeated n times; points beyond the list take choice 0.
#include <sched.h>

#include <cinttypes>
#include <cstdio>
#include <cstdlib>
#include <cstring>
#include <ctime>
#include <string>
#include <thread>
#include <unordered_set>
#include <vector>

#include "c20/arena.hpp"
#include "c20/ops.hpp"
#include "c20/sched.h"

#ifndef C20_ARENA
#define C20_ARENA 1
#endif

#if defined(__SANITIZE_THREAD__)
#define C20_TSAN 1
#elif defined(__has_feature)
#if __has_feature(thread_sanitizer)
#define C20_TSAN 1
#endif
#endif
#ifndef C20_TSAN
#define C20_TSAN 0
#endif
#ifndef C20_FINE /* 1: built with -finstrument-functions; 2: same, libstdc++ headers excluded; 0: not instrumented */
#define C20_FINE 0
#endif

#if C20_TSAN
extern "C" void __sanitizer_set_death_callback(void (*)(void));
#endif

namespace c20 {

#if C20_ARENA
template <class T>
using A = ArenaAlloc<T>;
#else
template <class T>
using A = amc::allocator<T>;
#endif

// object that lives next to its buffers: in the (later frozen) arena, or on the heap in the TSan build
template <class C, class... Args>
const C *make_shared_obj(Args &&...args) {
#if C20_ARENA
  return new (arena_alloc(sizeof(C), alignof(C) > 16 ? alignof(C) : 16)) C(std::forward<Args>(args)...);
#else
  return new C(std::forward<Args>(args)...);
#endif
}

using Less = std::less<int>;
using Vec = amc::vector<int, A<int>>;
using SVec = amc::SmallVector<int, 4, A<int>>;
using FCVec = amc::FixedCapacityVector<int, 4>;
using FSet = amc::FlatSet<int, Less, A<int>>;
using SSet = amc::SmallSet<int, 4, Less, A<int>>;             // std::set backing
using SSetF = amc::SmallSet<int, 4, Less, A<int>, FSet>;      // FlatSet backing
// the same sets with the dual (const / non-const call operator) comparator, see ops.hpp
using FSetD = amc::FlatSet<int, DualLess, A<int>>;
using SSetD = amc::SmallSet<int, 4, DualLess, A<int>>;
using SSetFD = amc::SmallSet<int, 4, DualLess, A<int>, FSetD>;

// --------------------------------------------------------------------------------------------------------------
// kinds: what is shared, and the operation menu

struct OpDesc {
  const char *name;
  OpFn fn;
  bool hidden;  // self-test operations: never enumerated
};

struct Kind {
  const char *name;
  Shared (*build)();
  std::vector<OpDesc> ops;
};

int g_selftest_counter;  // selftest-race: incremented non-atomically by two threads
template <class C>
uint64_t op_selftest_race(const Shared &) {
  int *p = &g_selftest_counter;
  *p = *p + 1;
  return 17;
}
// selftest-write: a mutation of the SHARED container through const_cast -- what a buggy const member would do
template <class C>
uint64_t op_selftest_write_vec(const Shared &s) {
  const_cast<C *>(static_cast<const C *>(s.a))->push_back(99);
  return 18;
}
template <class C>
uint64_t op_selftest_write_set(const Shared &s) {
  const_cast<C *>(static_cast<const C *>(s.a))->insert(99);
  return 18;
}

template <class C>
std::vector<OpDesc> vector_menu() {
  return {{"size", op_vsize<C>, false},   {"iter", op_iter<C>, false}, {"riter", op_riter<C>, false},
          {"access", op_access<C>, false}, {"eq", op_eq<C>, false},     {"eqr", op_eqr<C>, false},
          {"lt", op_lt<C>, false},         {"ltr", op_ltr<C>, false},   {"copy", op_copy<C>, false},
          {"mut", op_vmut<C>, false},      {"selftest_race", op_selftest_race<C>, true},
          {"selftest_write", op_selftest_write_vec<C>, true}};
}
template <class C>
std::vector<OpDesc> set_menu(bool with_large_twin) {
  std::vector<OpDesc> m = {{"size", op_ssize<C>, false},         {"iter", op_iter<C>, false},
                           {"riter", op_riter<C>, false},        {"find_hit", op_find_hit<C>, false},
                           {"find_miss", op_find_miss<C>, false}, {"eq", op_eq<C>, false},
                           {"eqr", op_eqr<C>, false},            {"lt", op_lt<C>, false},
                           {"ltr", op_ltr<C>, false},            {"copy", op_copy<C>, false},
                           {"mut", op_smut<C>, false}};
  if (with_large_twin) {
    m.push_back({"eqL", op_eqL<C>, false});
    m.push_back({"eqLr", op_eqLr<C>, false});
    m.push_back({"ltL", op_ltL<C>, false});
    m.push_back({"ltLr", op_ltLr<C>, false});
  }
  m.push_back({"selftest_race", op_selftest_race<C>, true});
  m.push_back({"selftest_write", op_selftest_write_set<C>, true});
  return m;
}

template <class C>
const C *build_seq(std::initializer_list<int> v) {  // vectors: push_back in order
  C *c = const_cast<C *>(make_shared_obj<C>());
  for (int x : v) c->push_back(x);
  return c;
}
template <class C>
const C *build_set(std::initializer_list<int> ins, std::initializer_list<int> del = {}) {
  C *c = const_cast<C *>(make_shared_obj<C>());
  for (int x : ins) c->insert(x);
  for (int x : del) c->erase(x);
  return c;
}
template <class C>
Shared build_vec5() {  // b differs from a in the last element only: comparisons walk the whole range
  return {build_seq<C>({10, 20, 30, 40, 50}), build_seq<C>({10, 20, 30, 40, 51}), nullptr};
}
template <class C>
Shared build_vec3() {
  return {build_seq<C>({10, 20, 30}), build_seq<C>({10, 20, 31}), nullptr};
}
template <class C>
Shared build_vec6() {
  return {build_seq<C>({10, 20, 30, 40, 50, 60}), build_seq<C>({10, 20, 30, 40, 50, 61}), nullptr};
}
template <class C>
Shared build_set5() {
  return {build_set<C>({40, 10, 50, 30, 20}), build_set<C>({51, 20, 40, 10, 30}), nullptr};
}
template <class C>
Shared build_sset_inline() {
  // a: inline, unsorted storage {30,10,20};  b: inline, other order, last element differs;
  // c: LARGE SmallSet with the same three elements as a (grown to 5, then two erased; it stays large)
  return {build_set<C>({30, 10, 20}), build_set<C>({20, 31, 10}), build_set<C>({50, 10, 40, 30, 20}, {40, 50})};
}
template <class C>
Shared build_sset_large() {
  return {build_set<C>({60, 10, 50, 30, 20, 40}), build_set<C>({61, 20, 40, 10, 30, 50}), nullptr};
}

const std::vector<Kind> &kinds() {
  static const std::vector<Kind> k = {
      {"vector", build_vec5<Vec>, vector_menu<Vec>()},
      {"smallvector_inline", build_vec3<SVec>, vector_menu<SVec>()},
      {"smallvector_heap", build_vec6<SVec>, vector_menu<SVec>()},
      {"fixedcapacityvector", build_vec3<FCVec>, vector_menu<FCVec>()},
      {"flatset", build_set5<FSet>, set_menu<FSet>(false)},
      {"smallset_inline", build_sset_inline<SSet>, set_menu<SSet>(true)},
      {"smallset_large", build_sset_large<SSet>, set_menu<SSet>(false)},
      {"smallset_flat_inline", build_sset_inline<SSetF>, set_menu<SSetF>(true)},
      {"smallset_flat_large", build_sset_large<SSetF>, set_menu<SSetF>(false)},
      {"flatset_dual", build_set5<FSetD>, set_menu<FSetD>(false)},
      {"smallset_dual_inline", build_sset_inline<SSetD>, set_menu<SSetD>(true)},
      {"smallset_dual_large", build_sset_large<SSetD>, set_menu<SSetD>(false)},
      {"smallset_flat_dual_inline", build_sset_inline<SSetFD>, set_menu<SSetFD>(true)},
      {"smallset_flat_dual_large", build_sset_large<SSetFD>, set_menu<SSetFD>(false)},
  };
  return k;
}

// --------------------------------------------------------------------------------------------------------------
// scenarios

struct Scenario {
  int kind = 0;
  int gran = 0;    // 0 = op, 1 = fn, 2 = fa
  int bound = -1;  // -1 = unbounded
  std::vector<std::vector<int>> thr;  // op indices per thread
};

[[noreturn]] void harness_error(const std::string &msg) {
  fprintf(stderr, "C20-HARNESS-ERROR: %s\n", msg.c_str());
  _exit(3);
}

std::string scenario_id(const Scenario &s) {
  const Kind &k = kinds()[s.kind];
  static const char *const gran_name[] = {":op:b", ":fn:b", ":fa:b"};
  std::string id = std::string(k.name) + gran_name[s.gran] + (s.bound < 0 ? "U" : std::to_string(s.bound)) + ":";
  for (size_t t = 0; t < s.thr.size(); t++) {
    if (t) id += "/";
    for (size_t i = 0; i < s.thr[t].size(); i++) {
      if (i) id += "+";
      id += k.ops[s.thr[t][i]].name;
    }
  }
  return id;
}

std::vector<std::string> split(const std::string &s, char sep) {
  std::vector<std::string> out;
  size_t a = 0;
  for (;;) {
    size_t b = s.find(sep, a);
    out.push_back(s.substr(a, b == std::string::npos ? b : b - a));
    if (b == std::string::npos) break;
    a = b + 1;
  }
  return out;
}

Scenario parse_scenario(std::string id) {
  if (id == "selftest-race") id = "vector:op:bU:selftest_race/selftest_race";
  if (id == "selftest-write") id = "flatset:op:bU:selftest_write/size";
  auto f = split(id, ':');
  if (f.size() != 4) harness_error("bad scenario id " + id);
  Scenario s;
  s.kind = -1;
  for (size_t i = 0; i < kinds().size(); i++)
    if (f[0] == kinds()[i].name) s.kind = static_cast<int>(i);
  if (s.kind < 0) harness_error("unknown kind in " + id);
  if (f[1] == "op")
    s.gran = 0;
  else if (f[1] == "fn")
    s.gran = 1;
  else if (f[1] == "fa")
    s.gran = 2;
  else
    harness_error("bad granularity in " + id);
  if (f[2].size() < 2 || f[2][0] != 'b') harness_error("bad bound in " + id);
  s.bound = f[2] == "bU" ? -1 : atoi(f[2].c_str() + 1);
  const Kind &k = kinds()[s.kind];
  for (const std::string &t : split(f[3], '/')) {
    s.thr.emplace_back();
    for (const std::string &o : split(t, '+')) {
      int idx = -1;
      for (size_t i = 0; i < k.ops.size(); i++)
        if (o == k.ops[i].name) idx = static_cast<int>(i);
      if (idx < 0) harness_error("unknown operation '" + o + "' in " + id);
      s.thr.back().push_back(idx);
    }
  }
  if (s.thr.size() < 1 || s.thr.size() > SCHED_MAX_THREADS) harness_error("bad thread count in " + id);
  return s;
}

// each build supports operation granularity plus (at most) one function-entry granularity
void require_gran(const Scenario &s) {
  if (s.gran && s.gran != C20_FINE)
    harness_error("granularity of " + scenario_id(s) + " is not what this binary was built for (C20_FINE=" +
                  std::to_string(C20_FINE) + ")");
}

// schedule text <-> choice list
std::string schedule_text(const std::vector<int> &c) {
  std::string out;
  for (size_t i = 0; i < c.size();) {
    size_t j = i;
    while (j < c.size() && c[j] == c[i]) j++;
    if (!out.empty()) out += ",";
    out += std::to_string(c[i]);
    if (j - i > 1) out += "*" + std::to_string(j - i);
    i = j;
  }
  return out.empty() ? "-" : out;
}
std::vector<int> parse_schedule(const std::string &s) {
  std::vector<int> c;
  if (s.empty() || s == "-") return c;
  for (const std::string &tok : split(s, ',')) {
    size_t star = tok.find('*');
    int v = atoi(tok.substr(0, star).c_str());
    long n = star == std::string::npos ? 1 : atol(tok.c_str() + star + 1);
    if (n < 1 || n > SCHED_MAX_POINTS) harness_error("bad schedule token " + tok);
    for (long i = 0; i < n; i++) c.push_back(v);
  }
  return c;
}

// --------------------------------------------------------------------------------------------------------------
// executing one schedule

struct KindState {  // the shared containers of the kind being explored + the sequential results (oracle (i))
  int kind = -1;
  Shared sh;
  std::vector<uint64_t> expected;
  std::vector<char> have;  // expected[i] computed?
};
KindState g_ks;

void enter_kind(int kind) {
  if (g_ks.kind == kind) return;
#if C20_ARENA
  arena_thaw_and_reset();
#endif
  const Kind &k = kinds()[kind];
  g_ks.kind = kind;
  g_ks.sh = k.build();
#if C20_ARENA
  arena_freeze();  // from here on any write to the shared containers or their buffers faults
#endif
  g_ks.expected.assign(k.ops.size(), 0);
  g_ks.have.assign(k.ops.size(), 0);
}

// Oracle (i) reference: every operation of the scenario run ALONE on the main thread, once per kind and process,
// before the scenario's first schedule.  Done lazily and under the scenario's context so that a fault in here (the
// frozen arena is already read-only) is attributed to a scenario the driver can resume after.
void need_expected(const Scenario &sc, const std::string &id, long idx) {
  const Kind &k = kinds()[sc.kind];
  for (auto &t : sc.thr)
    for (int op : t) {
      if (g_ks.have[op]) continue;
      if (k.ops[op].hidden) {  // self-test operations return a constant
        g_ks.expected[op] = !strcmp(k.ops[op].name, "selftest_race") ? 17 : 18;
      } else {
        snprintf(g_fault_ctx, sizeof g_fault_ctx, "scenario=%s index=%ld schedule=sequential:%s", id.c_str(), idx,
                 k.ops[op].name);
        g_ks.expected[op] = k.ops[op].fn(g_ks.sh);
#if C20_ARENA
        arena_recycle_private();
#endif
      }
      g_ks.have[op] = 1;
    }
}

constexpr int kMaxOps = 4;
struct RunOut {
  uint64_t res[SCHED_MAX_THREADS][kMaxOps];
};

void worker(int tid, const Scenario *sc, bool controlled, RunOut *out) {
  const Kind &k = kinds()[sc->kind];
  if (controlled)
    sched_thread_start(tid);
  else
    sched_barrier_wait();
  const std::vector<int> &ops = sc->thr[tid];
  for (size_t i = 0; i < ops.size(); i++) {
    if (i && controlled) sched_op_boundary();
    if (sc->gran && controlled) sched_roi(1);
    out->res[tid][i] = k.ops[ops[i]].fn(g_ks.sh);
    if (sc->gran && controlled) sched_roi(0);
  }
  if (controlled) sched_thread_exit();
}

// Plain build: the workers of controlled runs come from a small pool of persistent threads (starting 2-3 threads
// per schedule costs more than the schedule itself when millions of schedules are run).  Pool thread t takes part in
// a run iff t < number of threads of the scenario; it parks in sched_thread_start() exactly like a fresh thread.
// The TSan build always starts fresh threads: each schedule then has its own TSan thread ids and vector clocks, and
// no harness-level hand-over of the job description can be mistaken for (or hide) a race.
struct PoolJob {
  const Scenario *sc = nullptr;
  RunOut *out = nullptr;
};
PoolJob g_job;
int g_pool_size = 0;

void pool_thread(int tid) {
  int seen = 0;
  for (;;) {
    // a participant may read g_job: main cannot start the next generation before this thread has exited this one
    if (tid < sched_pool_wait(&seen)) worker(tid, g_job.sc, true, g_job.out);
  }
}

// runs the scenario once; controlled: under the scheduler with the given prefix, else free-running
void run_once(const Scenario &sc, bool controlled, const std::vector<int> &prefix, const unsigned *expect_sig,
              RunOut &out) {
#if C20_ARENA
  arena_recycle_private();
#endif
  memset(&out, 0, sizeof out);
  int nt = static_cast<int>(sc.thr.size());
  if (controlled && !C20_TSAN) {
    while (g_pool_size < SCHED_MAX_THREADS) std::thread(pool_thread, g_pool_size++).detach();
    g_job = {&sc, &out};
    sched_begin(nt, prefix.data(), static_cast<int>(prefix.size()), expect_sig);
    sched_pool_release(nt);  // publishes g_job (release/acquire on the generation counter)
    sched_run();             // returns after the last worker's sched_thread_exit(), i.e. after all results are stored
    return;
  }
  if (controlled)
    sched_begin(nt, prefix.data(), static_cast<int>(prefix.size()), expect_sig);
  else
    sched_barrier_init(nt);
  std::thread th[SCHED_MAX_THREADS];
  for (int t = 0; t < nt; t++) th[t] = std::thread(worker, t, &sc, controlled, &out);
  if (controlled) sched_run();
  for (int t = 0; t < nt; t++) th[t].join();
}

// oracle (i): number of operations whose digest differs from the sequential digest; describes the first one
int check_results(const Scenario &sc, const RunOut &out, std::string *detail) {
  const Kind &k = kinds()[sc.kind];
  int bad = 0;
  for (size_t t = 0; t < sc.thr.size(); t++)
    for (size_t i = 0; i < sc.thr[t].size(); i++)
      if (out.res[t][i] != g_ks.expected[sc.thr[t][i]]) {
        if (!bad && detail) {
          char b[200];
          snprintf(b, sizeof b, "thread=%zu op#%zu=%s got=%016" PRIx64 " alone=%016" PRIx64, t, i,
                   k.ops[sc.thr[t][i]].name, out.res[t][i], g_ks.expected[sc.thr[t][i]]);
          *detail = b;
        }
        bad++;
      }
  return bad;
}

uint64_t outcome_hash(const Scenario &sc, const RunOut &out) {
  uint64_t h = 99;
  for (size_t t = 0; t < sc.thr.size(); t++)
    for (size_t i = 0; i < sc.thr[t].size(); i++) h = mix(h, out.res[t][i]);
  return h;
}

void set_context(const std::string &id, long idx, const std::vector<int> &prefix) {
  snprintf(g_fault_ctx, sizeof g_fault_ctx, "scenario=%s index=%ld schedule=%s", id.c_str(), idx,
           schedule_text(prefix).c_str());
  sched_set_context(g_fault_ctx);
}

// --------------------------------------------------------------------------------------------------------------
// the explorer: DFS of iterative context bounding

struct Stats {
  uint64_t schedules = 0, decisions = 0, newpoints = 0, maxpoints = 0, violations = 0;
  std::unordered_set<uint64_t> interleavings, outcomes;
  bool complete = true;
  std::string first_schedule, last_schedule;
};

struct Explorer {
  const Scenario &sc;
  std::string id;
  long idx;
  uint64_t max_schedules;
  double deadline;
  uint64_t max_points;  // 0 = no limit; else: do not expand a scenario whose default schedule has more points
  Stats st;
  bool too_large = false;

  static double now() {
    timespec ts;
    clock_gettime(CLOCK_MONOTONIC, &ts);
    return ts.tv_sec + ts.tv_nsec * 1e-9;
  }

  // prefix: choices to replay; expect: identities of the points recorded for them (divergence check in the scheduler)
  void explore(const std::vector<int> &prefix, const std::vector<unsigned> &expect) {
    if (st.schedules >= max_schedules || (deadline > 0 && now() > deadline)) {
      st.complete = false;
      return;
    }
    set_context(id, idx, prefix);
    RunOut out;
    run_once(sc, true, prefix, expect.empty() ? nullptr : expect.data(), out);
    // copy what the DFS needs out of the scheduler's trace (the next run overwrites it)
    int np = sched_npoints();
    const sched_rec *tr = sched_trace();
    std::vector<unsigned char> nen(np), cur(np), choice(np);
    std::vector<unsigned> sig(np);
    uint64_t ih = 7;
    size_t fresh = prefix.empty() ? 0 : prefix.size() - 1;  // points before that were visited by the parent run
    for (int i = 0; i < np; i++) {
      choice[i] = tr[i].chosen;
      nen[i] = tr[i].nen;
      cur[i] = tr[i].cur_enabled;
      sig[i] = sched_sig(&tr[i]);
      if (tr[i].next != tr[i].tid)  // a switch: (who stopped, where, who continues)
        ih = mix(ih, (static_cast<uint64_t>(tr[i].tid + 1) << 56) ^ (static_cast<uint64_t>(tr[i].opidx) << 40) ^
                         (static_cast<uint64_t>(tr[i].funcnt) << 8) ^ static_cast<uint64_t>(tr[i].next + 1));
    }
    st.schedules++;
    st.decisions += np;
    st.newpoints += np - fresh;
    if (static_cast<uint64_t>(np) > st.maxpoints) st.maxpoints = np;
    if (prefix.empty() && max_points && static_cast<uint64_t>(np) > max_points) {
      too_large = true;  // the caller reports the scenario as "not attempted at this bound", never as covered
      st.complete = false;
      return;
    }
    st.interleavings.insert(ih);
    st.outcomes.insert(outcome_hash(sc, out));
    if (st.schedules == 1) st.first_schedule = schedule_text(prefix);
    st.last_schedule = schedule_text(prefix);
    std::string detail;
    if (check_results(sc, out, &detail)) {
      if (st.violations < 3)
        printf("V idx=%ld id=%s oracle=result schedule=%s detail=%s\n", idx, id.c_str(), schedule_text(prefix).c_str(),
               detail.c_str());
      st.violations++;
    }
    // alternatives at every point this run was the first to reach
    int preempt = 0;
    std::vector<int> p;
    std::vector<unsigned> e;
    for (int i = 0; i < np; i++) {
      if (static_cast<size_t>(i) >= prefix.size() && nen[i] > 1) {
        int cost = preempt + (cur[i] ? 1 : 0);
        if (sc.bound < 0 || cost <= sc.bound) {
          for (int alt = 1; alt < nen[i]; alt++) {
            p.assign(choice.begin(), choice.begin() + i);
            p.push_back(alt);
            e.assign(sig.begin(), sig.begin() + i + 1);
            explore(p, e);
          }
        }
      }
      if (cur[i] && choice[i] != 0) preempt++;
    }
  }
};

// --------------------------------------------------------------------------------------------------------------
// scenario enumeration per tier and phase (deterministic order; the index is the scenario's position)

void visible_ops(const Kind &k, std::vector<int> &v) {
  v.clear();
  for (size_t i = 0; i < k.ops.size(); i++)
    if (!k.ops[i].hidden) v.push_back(static_cast<int>(i));
}
int op_index(const Kind &k, const char *name) {
  for (size_t i = 0; i < k.ops.size(); i++)
    if (!strcmp(k.ops[i].name, name)) return static_cast<int>(i);
  return -1;
}

// 2 threads x 1 op: every unordered pair (with repetition) of the menu
void pairs_2x1(int kind, int gran, int bound, std::vector<Scenario> &out) {
  std::vector<int> v;
  visible_ops(kinds()[kind], v);
  for (size_t a = 0; a < v.size(); a++)
    for (size_t b = a; b < v.size(); b++) out.push_back({kind, gran, bound, {{v[a]}, {v[b]}}});
}
// 3 threads x 1 op: every multiset of size 3
void triples_3x1(int kind, int gran, int bound, std::vector<Scenario> &out) {
  std::vector<int> v;
  visible_ops(kinds()[kind], v);
  for (size_t a = 0; a < v.size(); a++)
    for (size_t b = a; b < v.size(); b++)
      for (size_t c = b; c < v.size(); c++) out.push_back({kind, gran, bound, {{v[a]}, {v[b]}, {v[c]}}});
}
// 2 threads x 2 ops: every unordered pair of ordered op pairs
void quads_2x2(int kind, int gran, int bound, std::vector<Scenario> &out) {
  std::vector<int> v;
  visible_ops(kinds()[kind], v);
  std::vector<std::pair<int, int>> pp;
  for (int a : v)
    for (int b : v) pp.push_back({a, b});
  for (size_t i = 0; i < pp.size(); i++)
    for (size_t j = i; j < pp.size(); j++)
      out.push_back({kind, gran, bound, {{pp[i].first, pp[i].second}, {pp[j].first, pp[j].second}}});
}
// quick tier: a handful of 3-thread scenarios per kind
void handful_3(int kind, int gran, int bound, std::vector<Scenario> &out) {
  const Kind &k = kinds()[kind];
  bool set = op_index(k, "find_hit") >= 0;
  int look = set ? op_index(k, "find_hit") : op_index(k, "access");
  int iter = op_index(k, "iter"), copy = op_index(k, "copy"), eq = op_index(k, "eq"), lt = op_index(k, "lt"),
      ltr = op_index(k, "ltr"), mut = op_index(k, "mut"), sz = op_index(k, "size");
  out.push_back({kind, gran, bound, {{iter}, {look}, {copy}}});
  out.push_back({kind, gran, bound, {{eq}, {lt}, {mut}}});
  out.push_back({kind, gran, bound, {{copy}, {copy}, {mut}}});
  out.push_back({kind, gran, bound, {{lt}, {ltr}, {look}}});
  out.push_back({kind, gran, bound, {{sz, iter}, {look, copy}, {lt}}});  // 2+2+1 operations
  if (op_index(k, "ltL") >= 0)
    out.push_back({kind, gran, bound, {{op_index(k, "ltL")}, {op_index(k, "ltLr")}, {op_index(k, "eqL")}}});
}
std::vector<Scenario> enumerate(const std::string &tier, const std::string &phase) {
  std::vector<Scenario> out;
  bool thorough = tier == "thorough";
  for (int kind = 0; kind < static_cast<int>(kinds().size()); kind++) {
    if (phase == "op") {  // operation granularity, ALL interleavings
      pairs_2x1(kind, 0, -1, out);
      handful_3(kind, 0, -1, out);
      if (thorough) {
        triples_3x1(kind, 0, -1, out);
        quads_2x2(kind, 0, -1, out);
      }
    } else if (phase == "fn1") {  // every function entry, every single preemption
      pairs_2x1(kind, 1, 1, out);
      handful_3(kind, 1, 1, out);
    } else if (phase == "fn1t") {  // every function entry, every single preemption, 3 threads (thorough only; the
                                   // driver passes --max-points, larger scenarios are covered by fa1 only)
      if (thorough) triples_3x1(kind, 1, 1, out);
    } else if (phase == "fa1") {  // amc function entries, every single preemption, 3 threads (thorough only)
      if (thorough) triples_3x1(kind, 2, 1, out);
    } else if (phase == "fa2") {  // amc function entries, every pair of preemptions (thorough only, --max-points)
      if (thorough) pairs_2x1(kind, 2, 2, out);
    } else if (phase == "fn2") {  // every function entry, every pair of preemptions (thorough only; with
                                  // --max-points, i.e. completed for the smaller scenarios only)
      if (thorough) pairs_2x1(kind, 1, 2, out);
    } else {
      harness_error("unknown phase " + phase);
    }
  }
  return out;
}

}  // namespace c20

// --------------------------------------------------------------------------------------------------------------

using namespace c20;

static void death_callback() {  // TSan is about to kill the process: say which scenario/schedule was running
  fprintf(stderr, "C20-CONTEXT %s\n", g_fault_ctx);
}

int main(int argc, char **argv) {
  std::string scen, sched_s, tier = "quick", phase = "op";
  bool have_schedule = false, list = false;
  long shard_k = 0, shard_n = 1, resume = 0, free_reps = 0, free_big = 0, pin = -1;
  uint64_t max_schedules = 2000000, max_points = 0;
  double budget_s = 0;
  for (int i = 1; i < argc; i++) {
    std::string a = argv[i];
    auto next = [&]() -> std::string {
      if (i + 1 >= argc) harness_error("missing value for " + a);
      return argv[++i];
    };
    if (a == "--scenario")
      scen = next();
    else if (a == "--schedule") {
      sched_s = next();
      have_schedule = true;
    } else if (a == "--tier")
      tier = next();
    else if (a == "--phase")
      phase = next();
    else if (a == "--shard") {
      auto f = split(next(), '/');
      if (f.size() != 2) harness_error("bad --shard");
      shard_k = atol(f[0].c_str());
      shard_n = atol(f[1].c_str());
    } else if (a == "--resume")
      resume = atol(next().c_str());
    else if (a == "--free")
      free_reps = atol(next().c_str());
    else if (a == "--free-big")
      free_big = atol(next().c_str());
    else if (a == "--pin")
      pin = atol(next().c_str());
    else if (a == "--max-schedules")
      max_schedules = strtoull(next().c_str(), nullptr, 10);
    else if (a == "--max-points")
      max_points = strtoull(next().c_str(), nullptr, 10);
    else if (a == "--budget-s")
      budget_s = atof(next().c_str());
    else if (a == "--list")
      list = true;
    else if (a == "--info") {
      printf("tsan=%d arena=%d fine=%d\n", C20_TSAN, C20_ARENA, C20_FINE);
      return 0;
    } else
      harness_error("unknown argument " + a);
  }
  setvbuf(stdout, nullptr, _IOLBF, 0);
  if (pin >= 0) {  // bind to the pin-th CPU of the allowed set (best effort)
    cpu_set_t allowed, one;
    if (sched_getaffinity(0, sizeof allowed, &allowed) == 0 && CPU_COUNT(&allowed) > 0) {
      long want = pin % CPU_COUNT(&allowed);
      for (int c = 0; c < CPU_SETSIZE; c++)
        if (CPU_ISSET(c, &allowed) && want-- == 0) {
          CPU_ZERO(&one);
          CPU_SET(c, &one);
          sched_setaffinity(0, sizeof one, &one);
          break;
        }
    }
  }
#if C20_ARENA
  arena_init();
#endif
  install_fault_handler();  // both builds: a crash is reported with the scenario and schedule that was running
#if C20_TSAN
  __sanitizer_set_death_callback(death_callback);
#else
  (void)death_callback;
#endif

  if (!scen.empty()) {
    Scenario sc = parse_scenario(scen);
    require_gran(sc);
    for (auto &t : sc.thr)
      if (t.size() > kMaxOps) harness_error("too many operations per thread");
    enter_kind(sc.kind);
    std::string id = scen.rfind("selftest-", 0) == 0 ? scen : scenario_id(sc);
    need_expected(sc, id, -1);
    if (have_schedule || free_reps) {  // stand-alone replay of one schedule (or R free runs)
      std::vector<int> prefix = parse_schedule(sched_s);
      int bad = 0;
      long reps = free_reps ? free_reps : 1;
      for (long r = 0; r < reps; r++) {
        set_context(id, -1, prefix);
        RunOut out;
        run_once(sc, !free_reps, prefix, nullptr, out);
        std::string detail;
        int b = check_results(sc, out, &detail);
        bad += b;
        printf("OBS scenario=%s schedule=%s points=%d results=", id.c_str(), free_reps ? "free" : schedule_text(prefix).c_str(),
               free_reps ? 0 : sched_npoints());
        for (size_t t = 0; t < sc.thr.size(); t++)
          for (size_t i = 0; i < sc.thr[t].size(); i++) printf("%s%016" PRIx64, (t || i) ? "," : "", out.res[t][i]);
        printf(" verdict=%s%s%s\n", b ? "MISMATCH" : "ok", b ? " " : "", detail.c_str());
      }
      return bad ? 1 : 0;
    }
    Explorer ex{sc, id, -1, max_schedules, 0, max_points, {}};
    ex.explore({}, {});
    printf("S idx=-1 id=%s schedules=%" PRIu64 " decisions=%" PRIu64 " points=%" PRIu64 " maxpoints=%" PRIu64
           " inter=%zu outcomes=%zu complete=%d viol=%" PRIu64 " first=%s last=%s\n",
           id.c_str(), ex.st.schedules, ex.st.decisions, ex.st.newpoints, ex.st.maxpoints, ex.st.interleavings.size(),
           ex.st.outcomes.size(), ex.st.complete ? 1 : 0, ex.st.violations,
           ex.st.first_schedule.c_str(), ex.st.last_schedule.c_str());
    return ex.st.violations ? 1 : 0;
  }

  std::vector<Scenario> all = enumerate(tier, phase);
  if (list) {
    for (size_t i = 0; i < all.size(); i++) printf("%zu %s\n", i, scenario_id(all[i]).c_str());
    return 0;
  }
  double deadline = budget_s > 0 ? Explorer::now() + budget_s : 0;
  long done = 0, skipped = 0;
  int rc = 0;
  for (size_t i = 0; i < all.size(); i++) {
    if (static_cast<long>(i % shard_n) != shard_k || static_cast<long>(i) < resume) continue;
    const Scenario &sc = all[i];
    require_gran(sc);
    std::string id = scenario_id(sc);
    if (deadline > 0 && Explorer::now() > deadline) {
      skipped++;
      continue;
    }
    enter_kind(sc.kind);
    need_expected(sc, id, static_cast<long>(i));
    if (free_reps) {  // free-running pass: real concurrency, threads released together
      int bad = 0;
      std::string detail;
      size_t nops = 0;
      for (auto &t : sc.thr) nops += t.size();
      long reps = (nops > 3 && free_big > 0) ? free_big : free_reps;
      for (long r = 0; r < reps; r++) {
        set_context(id, static_cast<long>(i), {});
        RunOut out;
        run_once(sc, false, {}, nullptr, out);
        if (check_results(sc, out, &detail)) bad++;
      }
      if (bad) printf("V idx=%zu id=%s oracle=result schedule=free detail=%s\n", i, id.c_str(), detail.c_str());
      printf("F idx=%zu id=%s runs=%ld viol=%d\n", i, id.c_str(), reps, bad);
      if (bad) rc = 1;
    } else {
      Explorer ex{sc, id, static_cast<long>(i), max_schedules, deadline, max_points, {}};
      ex.explore({}, {});
      if (ex.too_large) {  // K = skipped by the size rule: only its default schedule was run
        printf("K idx=%zu id=%s points=%" PRIu64 " limit=%" PRIu64 "\n", i, id.c_str(), ex.st.maxpoints, max_points);
        done++;
        continue;
      }
      printf("S idx=%zu id=%s schedules=%" PRIu64 " decisions=%" PRIu64 " points=%" PRIu64 " maxpoints=%" PRIu64
             " inter=%zu outcomes=%zu complete=%d viol=%" PRIu64 " first=%s last=%s\n",
             i, id.c_str(), ex.st.schedules, ex.st.decisions, ex.st.newpoints, ex.st.maxpoints,
             ex.st.interleavings.size(), ex.st.outcomes.size(), ex.st.complete ? 1 : 0,
             ex.st.violations, ex.st.first_schedule.c_str(), ex.st.last_schedule.c_str());
      if (ex.st.violations) rc = 1;
    }
    done++;
  }
  printf("DONE shard=%ld/%ld scenarios=%ld skipped=%ld total=%zu\n", shard_k, shard_n, done, skipped, all.size());
  return rc;
}
