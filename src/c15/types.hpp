// C15 support: extra element types, per-type access traits, canary-protected raw storage, a non-pointer forward
// iterator over raw storage, and the "source boxes" that present n elements through each iterator category.
// C++11.  Everything that is shared with the other explorers (TR, NTR, the ledger, fault injection) is in elems.hpp.
#pragma once
#include <amc/type_traits.hpp>

#include <cstddef>
#include <cstdio>
#include <cstring>
#include <deque>
#include <forward_list>
#include <iterator>
#include <list>
#include <new>
#include <type_traits>
#include <utility>
#include <vector>

#include "elems.hpp"

namespace c15 {

using vf::NTR;
using vf::TR;

enum { MAXLEN = 6, MAXN = 8 };  // longest range explored; number of observed slots (range + one sentinel, arrays)

// ---- element types defined for C15 only -------------------------------------------------------------------------

/// Trivial (trivially copyable and trivially default constructible) struct.
struct TC4 {
  int v;
  TC4() = default;
  TC4(int x) : v(x) {}
};

/// Trivially copyable but NOT trivially default constructible: copies may be memcpy, default/value construction
/// has to run the constructor (v == 7 afterwards).
struct TCN {
  int v;
  TCN() : v(7) {}
  TCN(int x) : v(x) {}
};

/// Like NTR (not relocatable, self pointer, tracked by address) but the MOVE constructor is a fault point as well.
class NTRX {
 public:
  int v;
  int moved;
  const NTRX *self;

  NTRX() : v(0), moved(0), self(this) {
    vf::event(1);
    ++vf::L().n_def_ctor;
    vf::addr_born(this);
  }
  NTRX(int x) : v(x), moved(0), self(this) {
    vf::event(2);
    ++vf::L().n_val_ctor;
    vf::addr_born(this);
  }
  NTRX(const NTRX &o) : v(o.v), moved(0), self(this) {
    o.check("copy-construct from");
    if (o.moved) vf::fail("C15", "NTRX copy-constructed from a moved-from object");
    vf::event(3);
    ++vf::L().n_copy_ctor;
    vf::addr_born(this);
  }
  NTRX(NTRX &&o) noexcept(false) : v(o.v), moved(o.moved), self(this) {
    o.check("move-construct from");
    vf::event(5);  // throws before anything is registered or the source is modified
    ++vf::L().n_move_ctor;
    vf::addr_born(this);
    o.moved = 1;
    o.v = -777;
  }
  NTRX &operator=(const NTRX &o) {
    o.check("copy-assign from");
    check("copy-assign to");
    vf::event(4);
    ++vf::L().n_copy_asg;
    v = o.v;
    moved = 0;
    return *this;
  }
  NTRX &operator=(NTRX &&o) noexcept(false) {
    o.check("move-assign from");
    check("move-assign to");
    vf::event(6);
    ++vf::L().n_move_asg;
    if (this != &o) {
      v = o.v;
      moved = o.moved;
      o.moved = 1;
      o.v = -777;
    }
    return *this;
  }
  ~NTRX() {
    ++vf::L().n_dtor;
    if (self != this)
      vf::fail("C15", "NTRX destroyed at %p but self=%p (moved by raw byte copy)", (const void *)this, (const void *)self);
    vf::addr_dead(this);
  }
  void check(const char *what) const {
    if (!vf::addr_alive(this)) vf::fail("C15", "NTRX %s an object outside its lifetime at %p", what, (const void *)this);
    else if (self != this) vf::fail("C15", "NTRX %s an object whose self pointer is stale (raw byte copy)", what);
  }
};

/// Move-only NTRX: copy construction / assignment deleted, move construction and move assignment are fault points.
/// The value category for which "move if noexcept, else copy" policies have no copy to fall back to.
class NTRXMO {
 public:
  int v;
  int moved;
  const NTRXMO *self;

  NTRXMO() : v(0), moved(0), self(this) {
    vf::event(1);
    ++vf::L().n_def_ctor;
    vf::addr_born(this);
  }
  NTRXMO(int x) : v(x), moved(0), self(this) {
    vf::event(2);
    ++vf::L().n_val_ctor;
    vf::addr_born(this);
  }
  NTRXMO(const NTRXMO &) = delete;
  NTRXMO &operator=(const NTRXMO &) = delete;
  NTRXMO(NTRXMO &&o) noexcept(false) : v(o.v), moved(o.moved), self(this) {
    o.check("move-construct from");
    vf::event(5);  // throws before anything is registered or the source is modified
    ++vf::L().n_move_ctor;
    vf::addr_born(this);
    o.moved = 1;
    o.v = -777;
  }
  NTRXMO &operator=(NTRXMO &&o) noexcept(false) {
    o.check("move-assign from");
    check("move-assign to");
    vf::event(6);
    ++vf::L().n_move_asg;
    if (this != &o) {
      v = o.v;
      moved = o.moved;
      o.moved = 1;
      o.v = -777;
    }
    return *this;
  }
  ~NTRXMO() {
    ++vf::L().n_dtor;
    if (self != this)
      vf::fail("C15", "NTRXMO destroyed at %p but self=%p (moved by raw byte copy)", (const void *)this, (const void *)self);
    vf::addr_dead(this);
  }
  void check(const char *what) const {
    if (!vf::addr_alive(this)) vf::fail("C15", "NTRXMO %s an object outside its lifetime at %p", what, (const void *)this);
    else if (self != this) vf::fail("C15", "NTRXMO %s an object whose self pointer is stale (raw byte copy)", what);
  }
};

/// Trivially default constructible but NOT trivial: `TDCA() = default` with user-provided copy operations.  Value
/// construction must zero-initialise it with placement new; a std::fill shortcut would run operator= on raw storage.
/// The copy operations count themselves in the ledger (n_copy_ctor / n_copy_asg); nothing else is tracked.
struct TDCA {
  int v;
  int w;
  TDCA() = default;
  TDCA(int x) : v(x), w(0) {}
  TDCA(const TDCA &o) : v(o.v), w(o.w) { ++vf::L().n_copy_ctor; }
  TDCA &operator=(const TDCA &o) {
    ++vf::L().n_copy_asg;
    v = o.v;
    w = o.w;
    return *this;
  }
};

// The branches of memory.hpp we mean to reach depend on these facts; fail the build rather than test the wrong thing.
static_assert(std::is_trivial<TC4>::value, "TC4 must be trivial");
static_assert(std::is_trivially_copyable<TCN>::value && !std::is_trivially_default_constructible<TCN>::value, "TCN");
static_assert(!std::is_trivially_copyable<TR>::value && amc::is_trivially_relocatable<TR>::value, "TR");
static_assert(!amc::is_trivially_relocatable<NTR>::value && std::is_nothrow_move_constructible<NTR>::value, "NTR");
static_assert(!amc::is_trivially_relocatable<NTRX>::value && !std::is_nothrow_move_constructible<NTRX>::value, "NTRX");
static_assert(!amc::is_trivially_relocatable<NTRXMO>::value && !std::is_nothrow_move_constructible<NTRXMO>::value &&
                  !std::is_copy_constructible<NTRXMO>::value && std::is_move_constructible<NTRXMO>::value,
              "NTRXMO");
static_assert(std::is_trivially_default_constructible<TDCA>::value && !std::is_trivial<TDCA>::value &&
                  !std::is_trivially_copyable<TDCA>::value && !amc::is_trivially_relocatable<TDCA>::value,
              "TDCA");

// ---- uniform access -----------------------------------------------------------------------------------------------
// name(); tracked (has a ledger); val/moved of a live object; alive(p): does the ledger know a live object at p;
// id(p): identity token that travels with a byte copy (TR only, -1 otherwise).
template <class T>
struct TrPod {  // untracked types with a member v
  static const bool tracked = false;
  static int val(const T &e) { return e.v; }
  static int moved(const T &) { return 0; }
  static bool alive(const T *) { return true; }
  static int id(const T *) { return -1; }
};
template <class T>
struct TrAddr {  // NTR, NTRX
  static const bool tracked = true;
  static int val(const T &e) { return e.v; }
  static int moved(const T &e) { return e.moved; }
  static bool alive(const T *p) { return vf::addr_alive(p); }
  static int id(const T *) { return -1; }
};
template <class T>
struct Tr;
template <>
struct Tr<int> {
  static const bool tracked = false;
  static const char *name() { return "int"; }
  static int val(const int &e) { return e; }
  static int moved(const int &) { return 0; }
  static bool alive(const int *) { return true; }
  static int id(const int *) { return -1; }
};
template <>
struct Tr<TC4> : TrPod<TC4> {
  static const char *name() { return "TC4"; }
};
template <>
struct Tr<TCN> : TrPod<TCN> {
  static const char *name() { return "TCN"; }
};
template <>
struct Tr<NTR> : TrAddr<NTR> {
  static const char *name() { return "NTR"; }
};
template <>
struct Tr<NTRX> : TrAddr<NTRX> {
  static const char *name() { return "NTRX"; }
};
template <>
struct Tr<NTRXMO> : TrAddr<NTRXMO> {
  static const char *name() { return "NTRXMO"; }
};
template <>
struct Tr<TDCA> {
  static const bool tracked = false;
  static const char *name() { return "TDCA"; }
  static int val(const TDCA &e) { return e.v ^ (e.w << 16); }  // 0 exactly when both members are zero
  static int moved(const TDCA &) { return 0; }
  static bool alive(const TDCA *) { return true; }
  static int id(const TDCA *) { return -1; }
};
template <>
struct Tr<TR> {
  static const bool tracked = true;
  static const char *name() { return "TR"; }
  static int val(const TR &e) { return e.v; }
  static int moved(const TR &e) { return e.moved; }
  static bool alive(const TR *p) { return vf::id_alive(p->id); }  // p always points into memory we own
  static int id(const TR *p) { return p->id; }
};

// ---- raw storage with canaries ------------------------------------------------------------------------------------
/// CAP slots of raw storage for T, heap allocated (ASan red zones beyond), filled with a byte pattern so that any
/// write outside the slots an algorithm is entitled to is visible.
template <class T>
class RawBuf {
 public:
  enum { CAP = MAXN, PAD = 64, FILL = 0xA5 };
  RawBuf() : mem_(new unsigned char[total()]) { std::memset(mem_, FILL, total()); }
  ~RawBuf() { delete[] mem_; }
  T *data() { return reinterpret_cast<T *>(mem_ + PAD); }
  /// true when every byte outside the first n slots still holds the pattern
  bool untouched_outside(int n) const {
    const size_t lo = PAD, hi = PAD + static_cast<size_t>(n) * sizeof(T);
    for (size_t i = 0; i < total(); ++i)
      if ((i < lo || i >= hi) && mem_[i] != FILL) return false;
    return true;
  }

 private:
  RawBuf(const RawBuf &);
  RawBuf &operator=(const RawBuf &);
  static size_t total() { return PAD + CAP * sizeof(T) + PAD; }
  unsigned char *mem_;
};

// ---- destination kinds --------------------------------------------------------------------------------------------
/// Minimal forward iterator (not a pointer, not random access) over raw storage.
template <class T>
class RawFwdIt {
 public:
  typedef std::forward_iterator_tag iterator_category;
  typedef T value_type;
  typedef std::ptrdiff_t difference_type;
  typedef T *pointer;
  typedef T &reference;
  RawFwdIt() : p_(0) {}
  explicit RawFwdIt(T *p) : p_(p) {}
  T &operator*() const { return *p_; }
  T *operator->() const { return p_; }
  RawFwdIt &operator++() {
    ++p_;
    return *this;
  }
  RawFwdIt operator++(int) {
    RawFwdIt r(*this);
    ++p_;
    return r;
  }
  friend bool operator==(const RawFwdIt &a, const RawFwdIt &b) { return a.p_ == b.p_; }
  friend bool operator!=(const RawFwdIt &a, const RawFwdIt &b) { return a.p_ != b.p_; }
  T *ptr() const { return p_; }

 private:
  T *p_;
};
// Logical offset (0 = first slot handed to the algorithm) of an iterator into a destination of n raw slots at base.
template <class T>
inline long dst_offset(T *it, T *base, int) {
  return static_cast<long>(it - base);
}
template <class T>
inline long dst_offset(RawFwdIt<T> it, T *base, int) {
  return static_cast<long>(it.ptr() - base);
}
template <class T>
inline long dst_offset(std::reverse_iterator<T *> it, T *base, int n) {
  return static_cast<long>((base + n) - it.base());
}

// A destination kind names an iterator type over n raw slots at `base`:  make(base, n, pos) is the iterator at logical
// position pos;  `reversed` says that logical slot i is physical slot n-1-i.
struct DPtr {
  static const char *name() { return "ptr"; }
  static const bool reversed = false;
  template <class T>
  struct It {
    typedef T *type;
  };
  template <class T>
  static T *make(T *base, int, int pos) {
    return base + pos;
  }
};
struct DFwd {
  static const char *name() { return "fwd"; }
  static const bool reversed = false;
  template <class T>
  struct It {
    typedef RawFwdIt<T> type;
  };
  template <class T>
  static RawFwdIt<T> make(T *base, int, int pos) {
    return RawFwdIt<T>(base + pos);
  }
};
/// Random access but not a forward walk over contiguous memory: std::reverse_iterator<T*> over the raw slots.
struct DRev {
  static const char *name() { return "rev(ptr)"; }
  static const bool reversed = true;
  template <class T>
  struct It {
    typedef std::reverse_iterator<T *> type;
  };
  template <class T>
  static std::reverse_iterator<T *> make(T *base, int n, int pos) {
    return std::reverse_iterator<T *>(base + (n - pos));
  }
};

// ---- source boxes -------------------------------------------------------------------------------------------------
// A box holds `count` elements with values 10, 11, ... and exposes them through one iterator type:
//   build(count); it(i) iterator to element i; elem(i) address of element i; offset(it) index an iterator points to;
//   finish(alive, count) end of case: `alive[i]` says whether element i is still a live object.
template <class T>
inline void make_at(T *p, int v) {
  ::new (static_cast<void *>(p)) T(v);
}

/// Elements live in raw storage and are torn down by the harness, so an algorithm may legitimately destroy them.
template <class T>
struct PtrBox {
  typedef T Elem;
  typedef T *It;
  RawBuf<T> buf;
  void build(int count) {
    for (int i = 0; i < count; ++i) make_at(buf.data() + i, 10 + i);
  }
  It it(int i) { return buf.data() + i; }
  T *elem(int i) { return buf.data() + i; }
  long offset(const T *p) { return static_cast<long>(p - buf.data()); }
  void finish(const int *alive, int count) {
    for (int i = 0; i < count; ++i)
      if (alive[i]) elem(i)->~T();
  }
};
template <class T>
struct ConstPtrBox : PtrBox<T> {
  typedef const T *It;
  It it(int i) { return this->buf.data() + i; }
};

template <class C>
inline void append(C &c, int v) {
  c.emplace_back(v);
}
template <class T>
inline void append(std::forward_list<T> &c, int v) {
  typename std::forward_list<T>::iterator last = c.before_begin(), nx = c.begin();
  for (; nx != c.end(); ++nx) last = nx;
  c.emplace_after(last, v);
}
template <class C>
inline void reserve_all(C &) {}
template <class T>
inline void reserve_all(std::vector<T> &c) {
  c.reserve(MAXN);
}

/// Elements are owned by a standard container.  Elements an algorithm destroyed (relocate) are re-created in place
/// before the container destructor runs, so that the container never destroys a dead object.
template <class C>
struct ContBox {
  typedef typename C::value_type Elem;
  typedef typename C::iterator It;
  C c;
  void build(int count) {
    reserve_all(c);  // no reallocation: element addresses are stable and nothing is moved while building
    for (int i = 0; i < count; ++i) append(c, 10 + i);
  }
  It it(int i) {
    It r = c.begin();
    std::advance(r, i);
    return r;
  }
  Elem *elem(int i) { return &*it(i); }
  long offset(It p) { return static_cast<long>(std::distance(c.begin(), p)); }
  void finish(const int *alive, int count) {
    for (int i = 0; i < count; ++i)
      if (!alive[i]) make_at(elem(i), -1);
  }
};

/// Elements in raw storage seen through std::reverse_iterator<T*>: element i lives at physical slot count-1-i.
template <class T>
struct RevPtrBox {
  typedef T Elem;
  typedef std::reverse_iterator<T *> It;
  RawBuf<T> buf;
  int cnt;
  RevPtrBox() : cnt(0) {}
  void build(int count) {
    cnt = count;
    for (int i = 0; i < count; ++i) make_at(elem(i), 10 + i);
  }
  It it(int i) { return It(buf.data() + (cnt - i)); }
  T *elem(int i) { return buf.data() + (cnt - 1 - i); }
  long offset(It p) { return static_cast<long>((buf.data() + cnt) - p.base()); }
  void finish(const int *alive, int count) {
    for (int i = 0; i < count; ++i)
      if (alive[i]) elem(i)->~T();
  }
};

/// A std::vector seen through reverse_iterator<vector::iterator>.
template <class T>
struct RevVecBox {
  typedef T Elem;
  typedef std::reverse_iterator<typename std::vector<T>::iterator> It;
  std::vector<T> c;
  int cnt;
  RevVecBox() : cnt(0) {}
  void build(int count) {
    cnt = count;
    c.reserve(MAXN);
    for (int j = 0; j < count; ++j) c.emplace_back(10 + (count - 1 - j));
  }
  It it(int i) { return It(c.begin() + (cnt - i)); }
  T *elem(int i) { return &c[static_cast<size_t>(cnt - 1 - i)]; }
  long offset(It p) { return static_cast<long>((c.begin() + cnt) - p.base()); }
  void finish(const int *alive, int count) {
    for (int i = 0; i < count; ++i)
      if (!alive[i]) make_at(elem(i), -1);
  }
};

/// A std::deque range that crosses a block boundary: element 0 is the last slot of a block, element 1 the first slot
/// of the next one (random access, not contiguous).  Built by padding the first block with dummies that are popped
/// again; the straddle is verified by address, not assumed from the library's block size.
template <class T>
struct DeqStraddleBox : ContBox<std::deque<T> > {
  void build(int count) {
    std::deque<T> &d = this->c;
    // libstdc++: 512-byte blocks, the first element of a fresh deque sits in slot 0 of its block
    const int per_block = sizeof(T) < 512 ? static_cast<int>(512 / sizeof(T)) : 1;
    for (int i = 0; i < per_block - 1; ++i) d.emplace_back(-5);
    for (int i = 0; i < count; ++i) d.emplace_back(10 + i);
    for (int i = 0; i < per_block - 1; ++i) d.pop_front();
    if (count >= 2 && this->elem(1) == this->elem(0) + 1)
      vf::fail("C15", "HARNESS: the deque range does not cross a block boundary (unexpected deque layout)");
  }
};

/// The same elements seen through std::move_iterator.
template <class B>
struct MoveBox : B {
  typedef std::move_iterator<typename B::It> It;
  It it(int i) { return It(B::it(i)); }
  long offset(It p) { return B::offset(p.base()); }
};

// source kinds (tags)
struct SPtr {
  static const char *name() { return "ptr"; }
  template <class T>
  struct Box : PtrBox<T> {};
};
struct SCPtr {  // const T*
  static const char *name() { return "cptr"; }
  template <class T>
  struct Box : ConstPtrBox<T> {};
};
struct SConv {  // int* feeding a destination of another type: value_type mismatch must select the generic path
  static const char *name() { return "intptr"; }
  template <class T>
  struct Box : PtrBox<int> {};
};
struct SVec {
  static const char *name() { return "vector"; }
  template <class T>
  struct Box : ContBox<std::vector<T> > {};
};
struct SDeq {
  static const char *name() { return "deque"; }
  template <class T>
  struct Box : ContBox<std::deque<T> > {};
};
struct SList {
  static const char *name() { return "list"; }
  template <class T>
  struct Box : ContBox<std::list<T> > {};
};
struct SFwd {
  static const char *name() { return "forward_list"; }
  template <class T>
  struct Box : ContBox<std::forward_list<T> > {};
};
struct SRev {  // std::reverse_iterator<T*>
  static const char *name() { return "rev(ptr)"; }
  template <class T>
  struct Box : RevPtrBox<T> {};
};
struct SRevVec {  // std::reverse_iterator<std::vector<T>::iterator>
  static const char *name() { return "rev(vector)"; }
  template <class T>
  struct Box : RevVecBox<T> {};
};
struct SDeqX {  // std::deque<T>::iterator over a range that crosses a block boundary
  static const char *name() { return "deque.straddle"; }
  template <class T>
  struct Box : DeqStraddleBox<T> {};
};
template <class K>
struct SMove {
  static const char *name() {
    static char buf[48];
    std::snprintf(buf, sizeof buf, "move(%s)", K::name());
    return buf;
  }
  template <class T>
  struct Box : MoveBox<typename K::template Box<T> > {};
};

}  // namespace c15
