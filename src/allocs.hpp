// Ledger allocators (C06) -- all instances compare equal (state is global).  C++11.
//   LedgerStd<T>      allocate / deallocate with exact-count checking
//   LedgerRealloc<T>  adds reallocate(p, oldCap, newCap, nLive); always moves the block and poisons the old one
//   LedgerBasic       byte-level "basic allocator" to put under amc::BasicAllocatorWrapper
// allocate / reallocate are fault points (std::bad_alloc).
#pragma once
#include <cstdlib>
#include <cstring>
#include <new>

#include "elems.hpp"

namespace vf {

struct AllocLedgerT {
  enum { CAP = 1024 };
  struct Blk {
    void *p;
    size_t count;
    size_t esize;
  };
  Blk blk[CAP];
  int n;
  long n_alloc, n_dealloc, n_realloc, n_dealloc_null;
  void reset() {
    n = 0;
    n_alloc = n_dealloc = n_realloc = n_dealloc_null = 0;
  }
  int find(void *p) const {
    for (int i = n - 1; i >= 0; --i)
      if (blk[i].p == p) return i;
    return -1;
  }
  long calls() const { return n_alloc + n_dealloc + n_realloc; }
};
inline AllocLedgerT &AL() {
  static AllocLedgerT a;
  return a;
}

inline void alloc_event() {
  LedgerT &l = L();
  if (++l.events == l.fault_at) {
    ++l.faults_thrown;
    throw std::bad_alloc();
  }
}

inline void *ledger_allocate(size_t count, size_t esize) {
  alloc_event();
  AllocLedgerT &a = AL();
  ++a.n_alloc;
  void *p = std::malloc(count * esize ? count * esize : 1);
  if (!p) throw std::bad_alloc();
  std::memset(p, 0xCD, count * esize);
  if (a.n < AllocLedgerT::CAP) {
    a.blk[a.n].p = p;
    a.blk[a.n].count = count;
    a.blk[a.n].esize = esize;
    ++a.n;
  }
  return p;
}

inline void ledger_deallocate(void *p, size_t count, size_t esize) {
  AllocLedgerT &a = AL();
  if (p == 0) {
    // amc hands back (nullptr, 0) when an empty amc::vector grows; the property speaks of blocks obtained.
    ++a.n_dealloc_null;
    if (count != 0) fail("C06", "deallocate(nullptr, %zu) with a non-zero count", count);
    return;
  }
  ++a.n_dealloc;
  int i = a.find(p);
  if (i < 0) {
    fail("C06", "deallocate(%p, %zu): block not outstanding (double free or foreign pointer)", p, count);
    return;
  }
  if (a.blk[i].count != count || a.blk[i].esize != esize)
    fail("C06", "deallocate(%p, %zu): block was obtained/reallocated with count %zu", p, count, a.blk[i].count);
  std::memset(p, 0xDD, a.blk[i].count * a.blk[i].esize);
  std::free(p);
  a.blk[i] = a.blk[--a.n];
}

inline void *ledger_reallocate(void *p, size_t oldCount, size_t newCount, size_t live, size_t esize, bool relocatable) {
  AllocLedgerT &a = AL();
  if (!relocatable) fail("C06", "reallocate used for an element type that is not trivially relocatable");
  int i = p ? a.find(p) : -1;
  if (p && i < 0) fail("C06", "reallocate(%p): block not outstanding", p);
  if (i >= 0 && (a.blk[i].count != oldCount || a.blk[i].esize != esize))
    fail("C06", "reallocate(%p, old=%zu): block has count %zu", p, oldCount, a.blk[i].count);
  if (!p && oldCount != 0) fail("C06", "reallocate(nullptr, old=%zu)", oldCount);
  if (live > oldCount) fail("C06", "reallocate: live count %zu exceeds old capacity %zu", live, oldCount);
  if (live > newCount) fail("C06", "reallocate: live count %zu exceeds new capacity %zu", live, newCount);
  alloc_event();  // may throw; the old block is then untouched
  ++a.n_realloc;
  void *q = std::malloc(newCount * esize ? newCount * esize : 1);
  if (!q) throw std::bad_alloc();
  std::memset(q, 0xCD, newCount * esize);
  size_t keep = live < newCount ? live : newCount;
  if (i >= 0) {
    if (keep > a.blk[i].count) keep = a.blk[i].count;
    std::memcpy(q, p, keep * esize);
    std::memset(p, 0xDD, a.blk[i].count * a.blk[i].esize);
    std::free(p);
    a.blk[i].p = q;
    a.blk[i].count = newCount;
  } else if (a.n < AllocLedgerT::CAP) {
    a.blk[a.n].p = q;
    a.blk[a.n].count = newCount;
    a.blk[a.n].esize = esize;
    ++a.n;
  }
  return q;
}

template <class T>
struct LedgerStd {
  typedef T value_type;
  typedef size_t size_type;
  typedef ptrdiff_t difference_type;
  typedef T *pointer;
  typedef const T *const_pointer;
  typedef T &reference;
  typedef const T &const_reference;
  template <class U>
  struct rebind {
    typedef LedgerStd<U> other;
  };
  LedgerStd() noexcept {}
  template <class U>
  LedgerStd(const LedgerStd<U> &) noexcept {}
  T *allocate(size_t n, const void * = 0) { return static_cast<T *>(ledger_allocate(n, sizeof(T))); }
  void deallocate(T *p, size_t n) { ledger_deallocate(p, n, sizeof(T)); }
  template <class U>
  bool operator==(const LedgerStd<U> &) const { return true; }
  template <class U>
  bool operator!=(const LedgerStd<U> &) const { return false; }
};

template <class T, class Reloc>
struct LedgerReallocImpl {
  typedef T value_type;
  typedef size_t size_type;
  typedef ptrdiff_t difference_type;
  typedef T *pointer;
  typedef const T *const_pointer;
  typedef T &reference;
  typedef const T &const_reference;
  LedgerReallocImpl() noexcept {}
  T *allocate(size_t n, const void * = 0) { return static_cast<T *>(ledger_allocate(n, sizeof(T))); }
  void deallocate(T *p, size_t n) { ledger_deallocate(p, n, sizeof(T)); }
  T *reallocate(T *p, size_t oldCap, size_t newCap, size_t nLive) {
    return static_cast<T *>(ledger_reallocate(p, oldCap, newCap, nLive, sizeof(T), Reloc::value));
  }
  bool operator==(const LedgerReallocImpl &) const { return true; }
  bool operator!=(const LedgerReallocImpl &) const { return false; }
};

/// byte-level basic allocator for amc::BasicAllocatorWrapper<T, LedgerBasic>
struct LedgerBasic {
  void *allocate(size_t n) { return ledger_allocate(n, 1); }
  void *reallocate(void *p, size_t oldSz, size_t newSz) {
    // the wrapper does not pass the live count: it promises realloc semantics (min(old,new) bytes preserved)
    return ledger_reallocate(p, oldSz, newSz, oldSz < newSz ? oldSz : newSz, 1, true);
  }
  void deallocate(void *p, size_t n) { ledger_deallocate(p, n, 1); }
};

}  // namespace vf
