// Alphabet, enabledness and apply() of the set explorer (FlatSet / SmallSet against std::set).  C++17.
#pragma once
#include <optional>
#include <sstream>

#include "set_cfg.hpp"
#include "win.hpp"

namespace sops {
using namespace scfg;
using namespace rt;

#define SOPS(X)                                                                                                      \
  X(INSERT_C) X(INSERT_M) X(EMPLACE) X(HINT_C) X(HINT_M) X(EMPLACE_HINT) X(INSERT_RANGE) X(INSERT_IL) X(ERASE_KEY)    \
  X(ERASE_POS) X(ERASE_RANGE) X(CLEAR) X(ERASE_LOOP) X(ERASE_IF) X(EXTRACT_KEY_INS) X(EXTRACT_POS_INS)                \
  X(EXTRACT_KEY_INS_HINT) X(NODE_FROM_TEMP) X(NODE_FROM_TEMP_HINT) X(EMPTY_NODE_INS) X(MERGE) X(MERGE_TEMP)           \
  X(MERGE_OTHER) X(MERGE_OTHER2) X(SWAP_MEMBER) X(SWAP_FREE) X(COPY_ASSIGN) X(MOVE_ASSIGN) X(COPY_CONSTRUCT) X(MOVE_CONSTRUCT)        \
  X(COPY_ASSIGN_T) X(MOVE_ASSIGN_T) X(SWAP_T) X(MOVE_CTOR_T) X(COPY_CTOR_T) X(CTOR_RANGE) X(CTOR_IL) X(OPEQ_IL)       \
  X(FROM_VECTOR) X(ASSIGN_VECTOR) X(STEAL_VECTOR) X(RESERVE) X(SHRINK) X(SELF_COPY_ASSIGN) X(SELF_SWAP) X(SELF_MERGE)

enum Kind {
#define X(n) n,
  SOPS(X)
#undef X
      KIND_COUNT
};
inline const char *kind_name(int k) {
  static const char *names[] = {
#define X(n) #n,
      SOPS(X)
#undef X
  };
  return k >= 0 && k < KIND_COUNT ? names[k] : "?";
}
inline int kind_from(const std::string &s) {
  for (int k = 0; k < KIND_COUNT; ++k)
    if (s == kind_name(k)) return k;
  return -1;
}
struct Op {
  int k = 0, i = 0, j = 0, a = 0, b = 0, c = 0;
  int f = 0;  // fault index: the f-th throwing event inside this operation throws (0 = none)
};
inline std::string op_str(const Op &o) {
  char buf[112];
  if (o.f) std::snprintf(buf, sizeof buf, "%s:%d:%d:%d:%d:%d:!%d", kind_name(o.k), o.i, o.j, o.a, o.b, o.c, o.f);
  else std::snprintf(buf, sizeof buf, "%s:%d:%d:%d:%d:%d", kind_name(o.k), o.i, o.j, o.a, o.b, o.c);
  return buf;
}
inline bool op_parse(const std::string &s, Op &o) {
  std::vector<std::string> f;
  std::stringstream ss(s);
  std::string t;
  while (std::getline(ss, t, ':')) f.push_back(t);
  if (f.size() != 6 && f.size() != 7) return false;
  o.f = f.size() == 7 ? std::atoi(f[6].c_str() + (f[6][0] == '!' ? 1 : 0)) : 0;
  o.k = kind_from(f[0]);
  if (o.k < 0) return false;
  o.i = std::atoi(f[1].c_str());
  o.j = std::atoi(f[2].c_str());
  o.a = std::atoi(f[3].c_str());
  o.b = std::atoi(f[4].c_str());
  o.c = std::atoi(f[5].c_str());
  return true;
}
inline std::string hist_str(const std::vector<Op> &h) {
  std::string s;
  for (size_t x = 0; x < h.size(); ++x) {
    if (x) s += ' ';
    s += op_str(h[x]);
  }
  return s;
}

// key sequences of length <= 3 (duplicates allowed) are encoded in base KEYS+1, digit 0 = end
inline std::vector<int> seq_decode(int code) {
  std::vector<int> r;
  while (code > 0) {
    r.push_back(code % (KEYS + 1) - 1);
    code /= (KEYS + 1);
  }
  return r;
}
inline std::vector<int> all_seq_codes(int maxlen) {
  std::vector<int> r;
  r.push_back(0);
  int B = KEYS + 1;
  for (int a = 1; a < B; ++a) {
    r.push_back(a);
    if (maxlen >= 2)
      for (int b = 1; b < B; ++b) {
        r.push_back(a + B * b);
        if (maxlen >= 3)
          for (int c = 1; c < B; ++c) r.push_back(a + B * b + B * B * c);
      }
  }
  return r;
}
inline std::vector<int> mask_keys(int mask) {
  std::vector<int> r;
  for (int k = 0; k < KEYS; ++k)
    if (mask & (1 << k)) r.push_back(k);
  return r;
}

constexpr int MAXK = 2;

struct Slot {
  static constexpr size_t kA = alignof(S);
  static constexpr size_t kOff = ((sizeof(S) + kA - 1) / kA) * kA + kA;
  alignas(256) unsigned char buf[kOff + sizeof(S) + 256];
  int cur = 0;
  bool alive = false;
  S &s() { return *std::launder(reinterpret_cast<S *>(raw())); }
  void *raw() { return buf + (cur ? kOff : 0); }
  void *other() { return buf + (cur ? 0 : kOff); }
};
struct World {
  int K = 1;
  Slot slot[MAXK];
  std::optional<Model> m[MAXK];
  bool big[MAXK];  // has held more than N elements, or took over the storage of a set that had (C05 automaton)
};

struct Opts {
  bool ranges_all = true;
  int seq_len = 3;
  bool temps = true;
  bool ctors = true;
  bool extras = true;  // AMC_NONSTD_FEATURES
  bool hint_only = false;  // C12 grid: only plain insert / erase (to reach every subset) and every hinted insertion
};

// private-state refinement of the key (detection idiom; falls back when the member is renamed)
template <class X, class = void>
struct LargeProbe {
  static int get(const X &) { return -1; }
};
template <class X>
struct LargeProbe<X, std::void_t<decltype(std::declval<const X &>()._set.empty())> > {
  static int get(const X &x) { return x._set.empty() ? 0 : 1; }
};
template <class X, class = void>
struct CapProbe {
  static long get(const X &) { return -1; }
};
template <class X>
struct CapProbe<X, std::void_t<decltype(std::declval<const X &>().capacity())> > {
  static long get(const X &x) { return (long)x.capacity(); }
};

inline std::vector<int> seq_of(const S &s) {
  std::vector<int> r;
  for (auto it = s.begin(); it != s.end(); ++it) r.push_back(E::val(*it));
  return r;
}

inline void enumerate(const World &w, const Opts &o, std::vector<Op> &out) {
  out.clear();
  static const int few_src[] = {S_PTR, S_INPUT, S_LIST, S_MOVE_PTR};
  const std::vector<int> seqs = all_seq_codes(o.seq_len);
  const std::vector<int> seqs2 = all_seq_codes(std::min(o.seq_len, 2));
  const int cap_lim = kFixedCap ? kFixedCap : 1000;  // what a temporary of the set's own type can hold
  for (int i = 0; i < w.K; ++i) {
    const int sz = (int)w.m[i]->size();
    auto add = [&](int k, int a = 0, int b = 0, int c = 0, int j = 0) {
      Op op;
      op.k = k; op.i = i; op.j = j; op.a = a; op.b = b; op.c = c;
      out.push_back(op);
    };
    if (o.hint_only) {
      for (int key = 0; key < KEYS; ++key) {
        add(INSERT_C, key);
        add(ERASE_KEY, key);
        for (int h = 0; h <= sz; ++h) { add(HINT_C, h, key); add(HINT_M, h, key); add(EMPLACE_HINT, h, key); }
      }
      if (kFlat && o.extras) { add(RESERVE, std::min(KEYS + 1, cap_lim)); add(SHRINK); }
      continue;
    }
    for (int key = 0; key < KEYS; ++key) {
      add(INSERT_C, key); add(INSERT_M, key); add(EMPLACE, key);
      for (int h = 0; h <= sz; ++h) { add(HINT_C, h, key); add(HINT_M, h, key); add(EMPLACE_HINT, h, key); }
      add(ERASE_KEY, key);
      for (int j = 0; j < w.K; ++j) {
        add(EXTRACT_KEY_INS, key, 0, 0, j);
        const int sj = (int)w.m[j]->size() - (j == i && w.m[i]->count(key) ? 1 : 0);
        for (int h = 0; h <= sj; ++h) add(EXTRACT_KEY_INS_HINT, key, h, 0, j);
      }
      add(NODE_FROM_TEMP, key);
      for (int h = 0; h <= sz; ++h) add(NODE_FROM_TEMP_HINT, key, h);
    }
    add(ERASE_KEY, -1); add(ERASE_KEY, KEYS);
    add(EMPTY_NODE_INS);
    for (int p = 0; p < sz; ++p) {
      add(ERASE_POS, p);
      for (int j = 0; j < w.K; ++j) add(EXTRACT_POS_INS, p, 0, 0, j);
    }
    for (int a = 0; a <= sz; ++a)
      for (int b = a; b <= sz; ++b) add(ERASE_RANGE, a, b);
    add(CLEAR);
    add(SELF_COPY_ASSIGN); add(SELF_SWAP); add(SELF_MERGE);
    for (int mask = 0; mask < (1 << KEYS); ++mask) {
      add(ERASE_LOOP, mask);
#if __cplusplus >= 202002L
      add(ERASE_IF, mask);
#endif
      if (o.temps && __builtin_popcount((unsigned)mask) <= cap_lim) {
        add(MERGE_TEMP, mask); add(MERGE_OTHER, mask);
        if (kSmallSet) add(MERGE_OTHER2, mask);
        add(COPY_ASSIGN_T, mask); add(MOVE_ASSIGN_T, mask); add(SWAP_T, mask); add(MOVE_CTOR_T, mask); add(COPY_CTOR_T, mask);
        add(MOVE_CTOR_T, mask, 1); add(COPY_CTOR_T, mask, 1);  // allocator-extended constructors
      }
    }
    for (int code : seqs) {
      if (o.ranges_all) for (int s = 0; s < S_COUNT; ++s) add(INSERT_RANGE, code, s);
      else for (int s : few_src) add(INSERT_RANGE, code, s);
    }
    for (int code : seqs) {
      add(INSERT_IL, code);
      if (o.ctors) { add(CTOR_IL, code); add(OPEQ_IL, code); }
    }
    if (o.ctors)
      for (int code : seqs2) for (int s : few_src) add(CTOR_RANGE, code, s);
    if (kFlat && o.extras) {
      for (int code : seqs) { add(FROM_VECTOR, code); add(ASSIGN_VECTOR, code); }
      add(STEAL_VECTOR);
      for (int n = 0; n <= std::min(KEYS + 1, cap_lim); ++n) add(RESERVE, n);
      add(SHRINK);
    }
    for (int j = 0; j < w.K; ++j) {
      if (j == i) continue;
      add(MERGE, 0, 0, 0, j); add(COPY_ASSIGN, 0, 0, 0, j); add(MOVE_ASSIGN, 0, 0, 0, j); add(COPY_CONSTRUCT, 0, 0, 0, j); add(MOVE_CONSTRUCT, 0, 0, 0, j);
      if (i < j) { add(SWAP_MEMBER, 0, 0, 0, j); add(SWAP_FREE, 0, 0, 0, j); }
    }
  }
}

}  // namespace sops
