// C20: the reader operation menu, written once as templates over the container type.
//
// Every reader operation takes the shared containers BY CONST REFERENCE ONLY and returns a 64-bit digest of
// everything it observed (values, positions, comparison results).  Oracle (i) compares that digest with the digest
// of the same operation run alone.  The only non-const entry points are
//   * `mut`  -- mutates a THREAD-PRIVATE container of the same type (the property allows that), and
//   * the self-test operation, which is never part of a generated scenario.
//
// readers.cpp instantiates exactly the reader operations (not mut, not the builders) with amc's default allocator
// for oracle (iv).
#pragma once

#include <amc/fixedcapacityvector.hpp>
#include <amc/flatset.hpp>
#include <amc/smallset.hpp>
#include <amc/smallvector.hpp>
#include <amc/vector.hpp>

#include <cstdint>
#include <functional>
#include <stdexcept>
#include <type_traits>
#include <utility>

namespace c20 {

// the (up to three) shared const containers of one kind:  a = the container under test, b = second container of
// the same type for == and <,  c = (SmallSet inline kinds only) a LARGE SmallSet holding the same elements as a
struct Shared {
  const void *a = nullptr, *b = nullptr, *c = nullptr;
};

using OpFn = uint64_t (*)(const Shared &);

inline uint64_t mix(uint64_t h, uint64_t v) {
  h ^= v + 0x9e3779b97f4a7c15ull + (h << 6) + (h >> 2);
  return h * 0xff51afd7ed558ccdull;
}

// A comparator with BOTH call operators, giving the same order: the const one is pure, the non-const one keeps a
// statistic in the comparator object -- which is part of the shared container.  Mutating members may use either; a
// const member must invoke the container's own comparator as a const object, hence the pure overload.  If a const
// lookup drops the constness (const_cast of the comparator base/member), the non-const overload is selected and the
// lookup WRITES into the shared container: the frozen arena faults, TSan reports, and `calls` (part of the lookup
// digest through comparator_state) no longer equals what it was when the operation ran alone.
struct DualLess {
  long calls = 0;
  bool operator()(int a, int b) const { return a < b; }
  bool operator()(int a, int b) {
    ++calls;
    return a < b;
  }
};

// the observable state of the container's comparator (0 for stateless comparators)
template <class Cmp, class = void>
struct comparator_state_of {
  static uint64_t get(const Cmp &) { return 0; }
};
template <class Cmp>
struct comparator_state_of<Cmp, decltype(void(std::declval<const Cmp &>().calls))> {
  static uint64_t get(const Cmp &c) { return static_cast<uint64_t>(c.calls); }
};
template <class C>
uint64_t comparator_state(const C &a) {
  return comparator_state_of<typename C::key_compare>::get(a.key_comp());
}

constexpr int kPresentKey = 20;
constexpr int kAbsentKey = 25;

// --------------------------------------------------------------------------------------------------------------
// operations common to vectors and sets

template <class C>
uint64_t op_iter(const Shared &s) {
  const C &a = *static_cast<const C *>(s.a);
  uint64_t h = 2;
  for (auto it = a.begin(); it != a.end(); ++it) h = mix(h, static_cast<uint64_t>(*it));
  for (auto it = a.cbegin(); it != a.cend(); ++it) h = mix(h, static_cast<uint64_t>(*it));
  for (const auto &x : a) h = mix(h, static_cast<uint64_t>(x));
  return h;
}

template <class C>
uint64_t op_riter(const Shared &s) {
  const C &a = *static_cast<const C *>(s.a);
  uint64_t h = 3;
  for (auto it = a.rbegin(); it != a.rend(); ++it) h = mix(h, static_cast<uint64_t>(*it));
  for (auto it = a.crbegin(); it != a.crend(); ++it) h = mix(h, static_cast<uint64_t>(*it));
  return h;
}

template <class C>
uint64_t cmp_eq(const C &x, const C &y) {
  return (x == y ? 1u : 0u) | (x != y ? 2u : 0u);
}
template <class C>
uint64_t cmp_lt(const C &x, const C &y) {
  return (x < y ? 1u : 0u) | (x <= y ? 2u : 0u) | (x > y ? 4u : 0u) | (x >= y ? 8u : 0u);
}
// a ? b, b ? a, a ? c, c ? a
template <class C>
uint64_t op_eq(const Shared &s) {
  return mix(4, cmp_eq(*static_cast<const C *>(s.a), *static_cast<const C *>(s.b)));
}
template <class C>
uint64_t op_eqr(const Shared &s) {
  return mix(5, cmp_eq(*static_cast<const C *>(s.b), *static_cast<const C *>(s.a)));
}
template <class C>
uint64_t op_lt(const Shared &s) {
  return mix(6, cmp_lt(*static_cast<const C *>(s.a), *static_cast<const C *>(s.b)));
}
template <class C>
uint64_t op_ltr(const Shared &s) {
  return mix(7, cmp_lt(*static_cast<const C *>(s.b), *static_cast<const C *>(s.a)));
}
template <class C>
uint64_t op_eqL(const Shared &s) {
  return mix(8, cmp_eq(*static_cast<const C *>(s.a), *static_cast<const C *>(s.c)));
}
template <class C>
uint64_t op_eqLr(const Shared &s) {
  return mix(9, cmp_eq(*static_cast<const C *>(s.c), *static_cast<const C *>(s.a)));
}
template <class C>
uint64_t op_ltL(const Shared &s) {
  return mix(10, cmp_lt(*static_cast<const C *>(s.a), *static_cast<const C *>(s.c)));
}
template <class C>
uint64_t op_ltLr(const Shared &s) {
  return mix(11, cmp_lt(*static_cast<const C *>(s.c), *static_cast<const C *>(s.a)));
}

// copy-construct from the shared container, look at the copy, destroy it (the copy is thread-private)
template <class C>
uint64_t op_copy(const Shared &s) {
  const C &a = *static_cast<const C *>(s.a);
  C mine(a);
  uint64_t h = mix(12, mine.size());
  for (const auto &x : mine) h = mix(h, static_cast<uint64_t>(x));
  return h;
}

// --------------------------------------------------------------------------------------------------------------
// vectors only

template <class C>
uint64_t op_vsize(const Shared &s) {
  const C &a = *static_cast<const C *>(s.a);
  uint64_t h = mix(1, a.size());
  h = mix(h, a.empty());
  h = mix(h, a.capacity());
  h = mix(h, a.max_size() != 0);
  return h;
}

template <class C>
uint64_t op_access(const Shared &s) {
  const C &a = *static_cast<const C *>(s.a);
  uint64_t h = 13;
  for (typename C::size_type i = 0; i < a.size(); ++i) h = mix(h, static_cast<uint64_t>(a[i]));
  h = mix(h, static_cast<uint64_t>(a.at(1)));
  h = mix(h, static_cast<uint64_t>(a.front()));
  h = mix(h, static_cast<uint64_t>(a.back()));
  h = mix(h, static_cast<uint64_t>(a.data()[a.size() - 1]));
  try {
    h = mix(h, static_cast<uint64_t>(a.at(a.size())));  // must throw
  } catch (const std::out_of_range &) {
    h = mix(h, 0xdead);
  }
  return h;
}

// --------------------------------------------------------------------------------------------------------------
// sets only

template <class C>
uint64_t op_ssize(const Shared &s) {
  const C &a = *static_cast<const C *>(s.a);
  uint64_t h = mix(1, a.size());
  h = mix(h, a.empty());
  h = mix(h, a.max_size() != 0);
  return h;
}

template <class C, class = void>
struct has_bounds : std::false_type {};
template <class C>
struct has_bounds<C, decltype(void(std::declval<const C &>().lower_bound(0)))> : std::true_type {};

template <class C, class It>
uint64_t pos(const C &a, It it) {  // digest of an iterator: end marker or the element it designates
  return it == a.end() ? ~0ull : static_cast<uint64_t>(*it);
}

template <class C>
uint64_t lookup(const C &a, int key) {
  uint64_t h = mix(14, pos(a, a.find(key)));
  h = mix(h, a.contains(key));
  h = mix(h, a.count(key));
  if constexpr (has_bounds<C>::value) {
    h = mix(h, pos(a, a.lower_bound(key)));
    h = mix(h, pos(a, a.upper_bound(key)));
    auto er = a.equal_range(key);
    h = mix(h, pos(a, er.first));
    h = mix(h, pos(a, er.second));
  }
  h = mix(h, comparator_state(a));  // read AFTER the lookups: a const lookup must not have changed it
  return h;
}
template <class C>
uint64_t op_find_hit(const Shared &s) {
  return lookup(*static_cast<const C *>(s.a), kPresentKey);
}
template <class C>
uint64_t op_find_miss(const Shared &s) {
  return lookup(*static_cast<const C *>(s.a), kAbsentKey);
}

// --------------------------------------------------------------------------------------------------------------
// the private mutator: builds, mutates and destroys its OWN container (never touches Shared)

template <class C>
uint64_t op_vmut(const Shared &) {
  C m;
  for (int i = 0; i < 3; ++i) m.push_back(100 + i);
  m.insert(m.begin(), 99);
  m.erase(m.begin() + 1);
  m.pop_back();
  m.push_back(7);  // size 3 here: still within N for FixedCapacityVector<int,4>
  if (m.max_size() > 4) {
    for (int i = 0; i < 4; ++i) m.push_back(200 + i);  // growing vectors: cross inline -> heap / reallocate
    m.erase(m.begin(), m.begin() + 2);
  }
  uint64_t h = mix(15, m.size());
  for (int x : m) h = mix(h, static_cast<uint64_t>(x));
  return h;
}

template <class C>
uint64_t op_smut(const Shared &) {
  C m;
  for (int i = 0; i < 6; ++i) m.insert(100 - 7 * i);  // crosses the small -> large boundary of SmallSet<int,4>
  m.erase(93);
  m.insert(5);
  m.insert(5);
  // bulk insertions whose smallest key is below the current last element: FlatSet sorts the appended tail and MERGES
  // it into the sorted prefix (SmallSet forwards to its backing set when large) -- the writers-on-distinct-objects
  // case of the property: two threads running this on their own objects must not share anything
  const int more[] = {90, 3, 70, 5};
  m.insert(more, more + 4);
  m.insert({1, 200, 72});
  m = {8, 2, 6};  // back to a small state (SmallSet: inline again)
  m.insert(more, more + 4);
  m.insert({7, 1, 300, 4});
  uint64_t h = mix(16, m.size());
  for (int x : m) h = mix(h, static_cast<uint64_t>(x));
  return h;
}

}  // namespace c20
