// C20 oracle (iv): a translation unit that instantiates ONLY the const reader operations (ops.hpp) on the amc
// containers with amc's default allocator.  checks/c20.py compiles it to an object file (-O0, so every inline
// function that is reachable is emitted) and lists its symbols: no symbol under amc:: may live in a writable
// section (.data/.bss/.tdata/.tbss, i.e. nm types b B d D and their weak/unique variants) and there must be no
// guard variable for an amc:: object -- a const member caching into static storage would show up here whatever the
// schedule.  No builder, no mutator, no const_cast is instantiated here.
#include "c20/ops.hpp"

namespace c20 {

using DVec = amc::vector<int>;
using DSVec = amc::SmallVector<int, 4>;
using DFCVec = amc::FixedCapacityVector<int, 4>;
using DFSet = amc::FlatSet<int>;
using DSSet = amc::SmallSet<int, 4>;
using DSSetF = amc::SmallSet<int, 4, std::less<int>, amc::allocator<int>, amc::FlatSet<int>>;
using DFSetD = amc::FlatSet<int, DualLess>;  // stateful comparator with a const and a non-const call operator
using DSSetFD = amc::SmallSet<int, 4, DualLess, amc::allocator<int>, DFSetD>;

#define C20_COMMON_READERS(C)                   \
  template uint64_t op_iter<C>(const Shared &);  \
  template uint64_t op_riter<C>(const Shared &); \
  template uint64_t op_eq<C>(const Shared &);    \
  template uint64_t op_eqr<C>(const Shared &);   \
  template uint64_t op_lt<C>(const Shared &);    \
  template uint64_t op_ltr<C>(const Shared &);   \
  template uint64_t op_copy<C>(const Shared &);

#define C20_VECTOR_READERS(C)                    \
  C20_COMMON_READERS(C)                          \
  template uint64_t op_vsize<C>(const Shared &); \
  template uint64_t op_access<C>(const Shared &);

#define C20_SET_READERS(C)                          \
  C20_COMMON_READERS(C)                             \
  template uint64_t op_ssize<C>(const Shared &);    \
  template uint64_t op_find_hit<C>(const Shared &); \
  template uint64_t op_find_miss<C>(const Shared &);

#define C20_SMALLSET_READERS(C)                 \
  C20_SET_READERS(C)                            \
  template uint64_t op_eqL<C>(const Shared &);  \
  template uint64_t op_eqLr<C>(const Shared &); \
  template uint64_t op_ltL<C>(const Shared &);  \
  template uint64_t op_ltLr<C>(const Shared &);

C20_VECTOR_READERS(DVec)
C20_VECTOR_READERS(DSVec)
C20_VECTOR_READERS(DFCVec)
C20_SET_READERS(DFSet)
C20_SMALLSET_READERS(DSSet)
C20_SMALLSET_READERS(DSSetF)
C20_SET_READERS(DFSetD)
C20_SMALLSET_READERS(DSSetFD)

}  // namespace c20
