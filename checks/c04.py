"""C04 -- SmallSet is observationally a std::set across its inline/large transition, both backings (E2)."""
from checks import e1, e2


def run(ctx):
    matrix = e2.small_quick() if ctx.tier == "quick" else e2.small_thorough()
    cov = e1.explore(ctx, matrix, ["C04"], engine="E2", eng=e2.ENG)
    return ctx.finish("model_checking", cov, e2.ASSUME)
