"""C07 -- E1 exploration, monitor selected by tag (see DESIGN.md section 4)."""
from checks import e1


def run(ctx):
    matrix = e1.quick_matrix() if ctx.tier == "quick" else e1.thorough_matrix()
    matrix = [i for i in matrix if e1.relevant("C07", i)]
    cov = e1.explore(ctx, matrix, ["C07"])
    return ctx.finish("model_checking", cov, e1.ASSUME)
