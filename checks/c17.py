#!/usr/bin/env python3
"""C17 -- static contract: relocatability trait, layout, size_type, triviality, noexcept.

Family: exhaustive enumeration of a bounded configuration matrix.  Nothing is sampled and nothing is executed
except the table printer: every cell is an instantiation of the library decided by the compiler.

  generator   For every element type of a generated family (category x size x alignment), every N of the tier's
              range, every size_type and every language standard, a translation unit instantiates the library and
              prints ONE LINE PER ROW with the facts the compiler decided (sizeof, type traits, noexcept operator).
              The TU contains no expectation at all.
  oracle      Computed here, in Python, from the text of the property (see the functions exp_* below); it never
              looks at the library's formulas.  Inputs of the oracle are the category of the element type (what it
              declares) and the element's own standard traits as printed by the same compiler.
  cell        one fact of one instantiation under one compiler/standard = one evaluation with a verdict.

Layout of a run:  the matrix is cut into chunks of element types; each chunk is handled by a sub-process
(`c17.py --chunk`, spec on stdin) that, for every (compiler, standard) of the tier, writes/compiles/runs the TU,
judges every cell and returns a JSON summary.  run(ctx) fans the chunks out with vlib.pmap and turns mismatches
into ctx.violation().  A single cell can be re-decided with  c17.py --cell '<json>'  (tiny TU, same code path).

Bounds that were probed rather than assumed (g++ 12 / clang++ 14, all four standards):
  * FixedCapacityVector<T,0>, SmallVector<T,0>, SmallSet<T,0> all compile -> N = 0 is part of the matrix.
  * signed size types compile for SmallVector -> int8/16/32 are part of the size_type axis.
  * SmallSet static_asserts N <= 64 -> SmallSet rows exist only for N <= 64 (and only from C++17 on: AMC_SMALLSET).
  * SmallVector static_asserts N < max(size_type) -> the (N, size_type) cells are exactly those with N < max.
"""
import hashlib
import json
import os
import sys

HERE = os.path.dirname(os.path.dirname(os.path.abspath(__file__)))
if os.path.join(HERE, "lib") not in sys.path:
    sys.path.insert(0, os.path.join(HERE, "lib"))
import vlib  # noqa: E402

GEN_DIR = os.path.join(vlib.BUILD, "c17gen")
SELF = os.path.abspath(__file__)

# =====================================================================================================================
# 1. The matrix
# =====================================================================================================================

# Element categories.  'decl' is what the type declares (None = no trivially_relocatable member), 'user' says
# whether copy/move are user-provided (=> not trivially copyable), mc/ma = noexcept-ness of the move constructor /
# move assignment, dtor = user-provided destructor, adl = own noexcept ADL swap.
# The first five are the categories named by the property; the last four exist so that every term of the
# documented noexcept conditions and of the destructor rule can be told apart from its neighbours
# ("nothrow move constructible && nothrow move assignable" versus "nothrow move assignable" alone, "nothrow move
# constructible && nothrow swappable" versus either alone, "trivially destructible" versus "trivially copyable").
#   traits (reloc, nothrow move ctor, nothrow move assign, nothrow swappable, trivially destructible):
#   triv 1 1 1 1 1 | optout 0 1 1 1 1 | trdecl 1 1 1 1 0 | nontr 0 1 1 1 0 | throwmv 0 0 0 0 0 | trthrow 1 0 0 0 0
#   thrctor 0 0 1 1 1 | thrasg 0 1 0 0 0 | adlswap 0 1 0 1 0
CATS = {
    "triv":    dict(user=False, decl=None),
    "optout":  dict(user=False, decl=False),
    "trdecl":  dict(user=True, decl=True, mc=True, ma=True, dtor=True),
    "nontr":   dict(user=True, decl=None, mc=True, ma=True, dtor=True),
    "throwmv": dict(user=True, decl=None, mc=False, ma=False, dtor=True),
    "trthrow": dict(user=True, decl=True, mc=False, ma=False, dtor=True),   # declared relocatable, throwing moves
    # trivially destructible but not copyable; throwing move ctor yet nothrow swappable through its own ADL swap
    "thrctor": dict(user=True, decl=None, mc=False, ma=True, dtor=False, adl=True),
    "thrasg":  dict(user=True, decl=None, mc=True, ma=False, dtor=True),
    "adlswap": dict(user=True, decl=None, mc=True, ma=False, dtor=True, adl=True),
}
CAT_ORDER = ["triv", "optout", "trdecl", "nontr", "throwmv", "trthrow", "thrctor", "thrasg", "adlswap"]
ALIGNS = [1, 2, 4, 8, 16]

# size_type axis (besides the default uint32_t, which the N rows cover): tag -> (C++ type, max)
STYPES = [("u8", "std::uint8_t", 2**8 - 1), ("u16", "std::uint16_t", 2**16 - 1), ("u64", "std::uint64_t", 2**64 - 1),
          ("i8", "std::int8_t", 2**7 - 1), ("i16", "std::int16_t", 2**15 - 1), ("i32", "std::int32_t", 2**31 - 1)]
ST = {t: (c, m) for t, c, m in STYPES}
ST["u32"] = ("std::uint32_t", 2**32 - 1)

# boundaries of SmallestSizeType (named by the property) plus the last N admitted by the two 8-bit size types
BOUNDARY_NS = [126, 254, 255, 256, 65535, 65536]
SMALLSET_MAX_N = 64
# components of the pair<A,B> element types and third member of the nested pairs: one fixed shape
PAIR_SHAPE = (4, 4)
PAIR_ELEM_CATS = ["triv", "optout", "trdecl", "nontr", "throwmv"]
PAIR_PARTNER_SHAPES = [(1, 1), (8, 8), (24, 8)]


def tier_params(tier):
    if tier == "quick":
        return dict(sizes=[1, 2, 3, 4, 5, 7, 8, 9, 12, 16, 17, 24], ns=list(range(0, 13)), pair_ns=[0, 1, 2, 3, 8],
                    configs=[["g++", "c++11"], ["g++", "c++17"], ["g++", "c++20"]], types_per_chunk=4)
    return dict(sizes=list(range(1, 25)), ns=list(range(0, 41)), pair_ns=list(range(0, 13)),
                configs=[[cxx, std] for cxx in ("g++", "clang++") for std in ("c++11", "c++14", "c++17", "c++20")],
                types_per_chunk=3)


def shapes(sizes):
    return [(s, a) for s in sizes for a in ALIGNS if s % a == 0]


def ename(cat, s, a):
    return "E_%s_%d_%d" % (cat, s, a)


def pname(c1, c2):
    return "P_%s_%s" % (c1, c2)


# Standard-library element types (name X_<tag>).  None of them declares trivially_relocatable, so the property's rule
# leaves exactly two ways to be relocatable: std::is_trivially_copyable (as printed by the compiler) or being a pair
# of relocatable types.  tag -> C++ type, or a pair of component tags.
STD_TYPES = {
    "int": "int", "array2": "std::array<int, 2>", "array3": "std::array<int, 3>",
    "string": "std::string", "uniqueptr": "std::unique_ptr<int>", "sharedptr": "std::shared_ptr<int>",
    "weakptr": "std::weak_ptr<int>", "stdvector": "std::vector<int>",
    "pairintstring": ("int", "string"), "pairarray2int": ("array2", "int"),
}
# the ones used as element types (the others are only components of the pairs)
STD_ELEMS = ["X_" + t for t in ("string", "uniqueptr", "sharedptr", "weakptr", "stdvector", "array3",
                                "pairintstring", "pairarray2int")]


class Elem:
    """Static knowledge about a generated element type, recovered from its name alone."""
    std = property(lambda self: self.name.startswith("X_"))

    def __init__(self, name):
        self.name = name
        p = name.split("_")
        if p[0] == "E":
            self.pair = None
            self.cat, self.s, self.a = p[1], int(p[2]), int(p[3])
            self.sigcat = self.cat
        elif p[0] == "P":
            self.pair = (Elem(ename(p[1], *PAIR_SHAPE)), Elem(ename(p[2], *PAIR_SHAPE)))
            self.cat = "pair(%s+%s)" % (p[1], p[2])
            self.sigcat = "pair"
        elif p[0] == "X":
            spec = STD_TYPES[p[1]]
            self.pair = None if isinstance(spec, str) else (Elem("X_" + spec[0]), Elem("X_" + spec[1]))
            self.cat = self.sigcat = "std"
            self.cxx = spec if isinstance(spec, str) else None
        else:
            raise ValueError(name)

    def deps(self):
        return [self.name] if not self.pair else [self.pair[0].name, self.pair[1].name, self.name]

    def definition(self):
        if self.pair:
            return "typedef std::pair<%s, %s> %s;\n" % (self.pair[0].name, self.pair[1].name, self.name)
        if self.std:
            return "typedef %s %s;\n" % (self.cxx, self.name)
        c, n = CATS[self.cat], self.name
        out = ["struct alignas(%d) %s {" % (self.a, n)]
        if c["decl"] is not None:
            out.append("  using trivially_relocatable = std::%s_type;" % ("true" if c["decl"] else "false"))
        out.append("  char d[%d];" % self.s)
        if c["user"]:
            out.append("  %s() {}" % n)
            out.append("  %s(const %s &) {}" % (n, n))
            out.append("  %s(%s &&) noexcept(%s) {}" % (n, n, "true" if c["mc"] else "false"))
            out.append("  %s &operator=(const %s &) { return *this; }" % (n, n))
            out.append("  %s &operator=(%s &&) noexcept(%s) { return *this; }" % (n, n, "true" if c["ma"] else "false"))
            if c["dtor"]:
                out.append("  ~%s() {}" % n)
            if c.get("adl"):
                out.append("  friend void swap(%s &, %s &) noexcept {}" % (n, n))
        out.append("};")
        return "\n".join(out) + "\n"


# =====================================================================================================================
# 2. Row schemas: (field, C++ expression).  Generated into every TU as one function template per row kind.
# =====================================================================================================================

def _vec_fields(prefix, v, with_td=False, with_st=False):
    f = [(prefix + "_sz", "sizeof(%s)" % v), (prefix + "_al", "alignof(%s)" % v)]
    if with_td:
        f.append((prefix + "_td", "std::is_trivially_destructible<%s >::value" % v))
    if with_st:
        f.append((prefix + "_st", "c17::StCode<typename %s::size_type>::value" % v))
    f += [(prefix + "_reloc", "amc::is_trivially_relocatable<%s >::value" % v),
          (prefix + "_mc", "C17_NX_MC(%s)" % v), (prefix + "_ma", "C17_NX_MA(%s)" % v),
          (prefix + "_sw", "C17_NX_SW(%s)" % v), (prefix + "_fsw", "C17_NX_FSW(%s)" % v)]
    return f


def _set_fields(prefix, f):
    return [(prefix + "_reloc", "amc::is_trivially_relocatable<%s >::value" % f), (prefix + "_sw", "C17_NX_SW(%s)" % f)]


# Comparators: tag -> (C++ type, empty, trivially copyable, declares).  The last three columns are how each one is
# DESIGNED (checked against what the compiler prints); the oracle derives "relocatable" from them by the property's
# rule alone: the declaration if there is one, else trivially copyable.  Emptiness is an axis of its own because a
# comparator is a (private, possibly empty) base of FlatSet: an empty comparator that is not relocatable must block
# the set's trait exactly like a stateful one.
COMPARATORS = [
    ("c0", "std::less<E>", True, True, None),              # empty, trivially copyable         -> relocatable
    ("c1", "c17::CmpPlain<E>", False, False, None),        # stateful, user-provided copy      -> not relocatable
    ("c2", "c17::CmpDeclared<E>", False, False, True),     # stateful, user copy, declares     -> relocatable
    ("c3", "c17::CmpEmptyOptOut<E>", True, True, False),   # empty, trivially copyable, opts out -> not relocatable
    ("c4", "c17::CmpEmptyPlain<E>", True, False, None),    # empty, user-provided copy         -> not relocatable
]
CMP_TAGS = [c[0] for c in COMPARATORS]
_CMP_TYPEDEFS = "typedef amc::allocator<E> A; " + " ".join(
    "typedef %s C%s;" % (c[1], c[0][1]) for c in COMPARATORS)


def _flatsets(tprefix, alloc, vec):
    """typedefs of FlatSet<E, Ci, alloc, vec> for every comparator, named <tprefix>i"""
    return " " + " ".join("typedef amc::FlatSet<E, C%s, %s, %s> %s%s;" % (c[1], alloc, vec, tprefix, c[1])
                          for c in CMP_TAGS)


def _flatset_fields(fprefix, tprefix):
    return [f for c in CMP_TAGS for f in _set_fields(fprefix + c[1], tprefix + c[1])]


ROWS = {
    # per TU: what a pointer is
    "H": dict(tparams="", typedefs="", fields=[("ptr_sz", "sizeof(void *)"), ("ptr_al", "alignof(void *)"),
                                                ("cplusplus", "__cplusplus")]),
    # sanity only (components of pairs): no cell is judged on this row
    "K": dict(tparams="class E", typedefs="", fields=[
        ("sz", "sizeof(E)"), ("al", "alignof(E)"), ("tc", "std::is_trivially_copyable<E>::value")]),
    # per element type: its own traits, amc::vector<E>, FlatSet<E, cmp> over amc::vector
    "E": dict(tparams="class E", typedefs=_CMP_TYPEDEFS + " typedef amc::vector<E> V;" + _flatsets("F", "A", "V"),
              fields=[("sz", "sizeof(E)"), ("al", "alignof(E)"), ("tc", "std::is_trivially_copyable<E>::value"),
                      ("td", "std::is_trivially_destructible<E>::value"),
                      ("nmc", "std::is_nothrow_move_constructible<E>::value"),
                      ("nma", "std::is_nothrow_move_assignable<E>::value"),
                      ("nsw", "c17::nothrow_swappable<E>::value"),          # independent of the library
                      ("nsw_amc", "amc::is_nothrow_swappable<E>::value"),   # the library's (own code before C++17)
                      ("reloc", "amc::is_trivially_relocatable<E>::value")]
              + _vec_fields("v", "V")
              + [(c + "_" + k, e % ("C" + c[1])) for c in CMP_TAGS
                 for k, e in (("empty", "std::is_empty<%s >::value"),
                              ("tc", "std::is_trivially_copyable<%s >::value"),
                              ("nsw", "c17::nothrow_swappable<%s >::value"),
                              ("reloc", "amc::is_trivially_relocatable<%s >::value"))]
              + _flatset_fields("f", "F")),
    # per element type, C++17 on: the std::set that backs the default SmallSet
    "Q": dict(tparams="class E", cxx17=True, typedefs=_CMP_TYPEDEFS + " typedef std::set<E, C0, A> S0;",
              fields=[("set_tc", "std::is_trivially_copyable<S0>::value"),
                      ("set_reloc", "amc::is_trivially_relocatable<S0>::value")]),
    # per element type x non-default size_type: amc::vector<E, Alloc, S>
    "S": dict(tparams="class E, class S", typedefs="typedef amc::vector<E, amc::allocator<E>, S> V;",
              fields=_vec_fields("v", "V", with_st=True)),
    # per element type x N: SmallVector<E,N>, FixedCapacityVector<E,N>, SmallestSizeType<N>, FlatSets over both
    "N": dict(tparams="class E, unsigned long long N", typedefs=_CMP_TYPEDEFS +
              " typedef amc::SmallVector<E, N> SV; typedef amc::FixedCapacityVector<E, N> FV;"
              " typedef amc::vec::EmptyAlloc EA;" + _flatsets("FS", "A", "SV") + _flatsets("FF", "EA", "FV"),
              fields=_vec_fields("sv", "SV") + _vec_fields("fv", "FV", with_td=True, with_st=True)
              + [("sst", "c17::StCode<typename amc::vec::SmallestSizeType<N>::type>::value")]
              + _flatset_fields("fs", "FS") + _flatset_fields("ff", "FF")),
    # per element type x N x non-default size_type: SmallVector<E, N, Alloc, S>
    "T": dict(tparams="class E, unsigned long long N, class S",
              typedefs="typedef amc::SmallVector<E, N, amc::allocator<E>, S> SV;", fields=_vec_fields("sv", "SV")),
    # per element type x N <= 64, C++17 on: SmallSet over std::set and over FlatSet, and its inline vector
    "M": dict(tparams="class E, unsigned long long N", cxx17=True, typedefs=_CMP_TYPEDEFS +
              " typedef amc::FixedCapacityVector<E, N, amc::vec::UncheckedGrowingPolicy> UV;"
              " typedef amc::SmallSet<E, N, C0, A> MS; " + " ".join(
                  "typedef amc::SmallSet<E, N, C%s, A, amc::FlatSet<E, C%s, A> > MF%s;" % (c[1], c[1], c[1])
                  for c in CMP_TAGS),
              fields=[("uv_td", "std::is_trivially_destructible<UV>::value"),
                      ("uv_reloc", "amc::is_trivially_relocatable<UV>::value"),
                      ("ms_reloc", "amc::is_trivially_relocatable<MS>::value")]
              + [("mf%s_reloc" % c[1], "amc::is_trivially_relocatable<MF%s>::value" % c[1]) for c in CMP_TAGS]),
    # std::pair<A,B> and std::pair<std::pair<A,B>,C>
    "P": dict(tparams="class A, class B", typedefs="",
              fields=[("reloc", "amc::is_trivially_relocatable<std::pair<A, B> >::value")]),
    "3": dict(tparams="class A, class B, class C", typedefs="",
              fields=[("reloc", "amc::is_trivially_relocatable<std::pair<std::pair<A, B>, C> >::value")]),
}
FIELD_IDX = {k: {f: i for i, (f, _) in enumerate(r["fields"])} for k, r in ROWS.items()}
ROW_FN = {k: "row_%s" % ("3x" if k == "3" else k) for k in ROWS}


def row_types(row):
    """Element type names a row refers to (row = [kind, a, b, c] as printed: kind, elem, N-field, S-field)."""
    k = row[0]
    if k == "H":
        return []
    if k == "P":
        return [row[1], row[2]]
    if k == "3":
        return [row[1], row[2], row[3]]
    return [row[1]]


def row_call(row):
    k, a, b, c = row
    fn = ROW_FN[k]
    if k == "H":
        return '%s("-", "-", "-");' % fn
    if k in ("E", "K", "Q"):
        targs = a
    elif k == "S":
        targs = "%s, %s" % (a, ST[c][0])
    elif k in ("N", "M"):
        targs = "%s, %sULL" % (a, b)
    elif k == "T":
        targs = "%s, %sULL, %s" % (a, b, ST[c][0])
    elif k == "P":
        targs = "%s, %s" % (a, b)
    else:
        targs = "%s, %s, %s" % (a, b, c)
    return '%s<%s >("%s", "%s", "%s");' % (fn, targs, a, b, c)


def gen_tu(rows):
    """Deterministic source text of the TU printing the given rows (order preserved)."""
    kinds, types = [], []
    for r in rows:
        if r[0] not in kinds:
            kinds.append(r[0])
        for t in row_types(r):
            for d in Elem(t).deps():
                if d not in types:
                    types.append(d)
    o = ["// generated by /verif/checks/c17.py -- prints compiler-decided facts, asserts nothing\n",
         "#include <amc/fixedcapacityvector.hpp>\n#include <amc/flatset.hpp>\n#include <amc/smallvector.hpp>\n"
         "#include <amc/type_traits.hpp>\n#include <amc/vector.hpp>\n"
         "#ifdef AMC_SMALLSET\n#include <set>\n#include <amc/smallset.hpp>\n#endif\n"
         '#include "c17/c17_types.hpp"\n\n']
    for t in types:
        o.append(Elem(t).definition())
    o.append("\n")
    for k in kinds:
        r = ROWS[k]
        if r.get("cxx17"):
            o.append("#ifdef AMC_SMALLSET\n")
        if r["tparams"]:
            o.append("template <%s>\n" % r["tparams"])
        o.append("void %s(const char *a, const char *b, const char *c) {\n" % ROW_FN[k])
        for td in r["typedefs"].replace("; ", ";\n").splitlines():
            o.append("  %s\n" % td.strip())
        o.append("  static const long long v[] = {\n")
        for f, e in r["fields"]:
            o.append("      (long long)(%s),  // %s\n" % (e, f))
        o.append("  };\n")
        o.append('  c17::emit("%s", a, b, c, v, %d);\n}\n' % (k, len(r["fields"])))
        if r.get("cxx17"):
            o.append("#endif\n")
        o.append("\n")
    # main is split into blocks so that no single function gets huge at -O0
    blocks = [rows[i:i + 400] for i in range(0, len(rows), 400)]
    for i, blk in enumerate(blocks):
        o.append("static void block%d() {\n" % i)
        guard = False
        for r in blk:
            g = bool(ROWS[r[0]].get("cxx17"))
            if g != guard:
                o.append("#ifdef AMC_SMALLSET\n" if g else "#endif\n")
                guard = g
            o.append("  " + row_call(r) + "\n")
        if guard:
            o.append("#endif\n")
        o.append("}\n")
    o.append("int main() {\n")
    for i in range(len(blocks)):
        o.append("  block%d();\n" % i)
    o.append("  return 0;\n}\n")
    return "".join(o)


# =====================================================================================================================
# 3. The oracle (from the property text only)
# =====================================================================================================================

def exp_reloc_elem(el, tc, ktc=None):
    """is_trivially_relocatable<T>: true exactly for types declaring true_type, for trivially copyable types that
    make no declaration (a false_type declaration opts out), and for pairs of relocatable types.
    tc = std::is_trivially_copyable<T> as printed; for the components of a pair it comes from ktc (their K rows:
    printed too) or, for the generated categories, from how the category is built (checked against K rows)."""
    if el.pair:
        return all(exp_reloc_elem(c, ktc[c.name] if ktc and c.name in ktc else not CATS[c.cat]["user"], ktc)
                   for c in el.pair)
    decl = None if el.std else CATS[el.cat]["decl"]     # no standard-library type declares the member
    if decl is not None:
        return decl
    return bool(tc)


def exp_smallest_size_type(n):
    """smallest unsigned type able to hold N, as a bit count"""
    for bits in (8, 16, 32, 64):
        if n <= 2**bits - 1:
            return bits
    raise ValueError(n)


def exp_noexcept(n, reloc, nmc, nma, nsw):
    """Documented conditions.  Vector(Vector&&): N == 0 || T trivially relocatable || nothrow move constructible;
    operator=(Vector&&): N == 0 || T trivially relocatable || (nothrow move constructible && nothrow move assignable);
    swap, member and free: N == 0 || (nothrow move constructible && nothrow swappable).
    Returns (mc, ma, sw, fsw)."""
    z = n == 0
    sw = z or (nmc and nsw)
    return (z or reloc or nmc, z or reloc or (nmc and nma), sw, sw)


def exp_size_bound(n, esz, eal, vec_sz, ptr_sz, ptr_al):
    """SmallVector<T,N> is no larger than amc::vector<T> whenever N elements fit in the bytes of a pointer and
    otherwise adds no more than the N element slots plus alignment padding.  Returns (fits, upper bound)."""
    if n * esz <= ptr_sz:
        return True, vec_sz
    return False, vec_sz + n * esz + max(eal, ptr_al)


def exp_reloc_cmp(tc, decl):
    """same rule as for any type: the declaration if there is one, else trivially copyable (emptiness plays no role)"""
    return decl if decl is not None else bool(tc)


# "Trivial default" of every fact family: the expected value on the simplest instance of the matrix (1-byte trivial
# element, std::less, N = 0, default size_type).  A cell is counted as non-trivial when its expected value differs.
TRIVIAL_DEFAULT = {"reloc": True, "nx": True, "td": True, "st": 8, "size": "fits", "setreloc": False}


class Judge:
    """Judges the printed table of one TU under one (compiler, standard)."""

    def __init__(self, cfg):
        self.cfg = cfg
        self.evals = 0
        self.by_fact = {}
        self.nontrivial = set()       # ids of cells whose expected value is not the trivial default
        self.mism = []                # mismatching cells
        self.overhead = {}            # sizeof(SmallVector) - sizeof(vector) - inline element bytes -> count
        self.min_slack = None         # smallest (bound - observed) over the inline-storage cells
        self.samples = {}
        self.ptr = None
        self.tr = {}                  # element name -> traits dict (from its E row)
        self.vsz = {}                 # (element, stag) -> sizeof(amc::vector<E, Alloc, S>)
        self.ktc = {}                 # K rows
        self.want = None              # replay: fact whose cells are all recorded in self.replayed, mismatching or not
        self.replayed = None
        self.cur_row = None           # row being judged (goes into the replay command of a mismatch)

    # -- bookkeeping ------------------------------------------------------------------------------------------------
    def cell(self, fam, fact, el, nclass, where, exp, obs, ok=None, expkey=None):
        """fam: fact family (key of TRIVIAL_DEFAULT); exp/obs: expected/observed; expkey: value compared with the
        trivial default when exp itself is a bound."""
        if ok is None:
            ok = (exp == obs)
        self.evals += 1
        self.by_fact[fact] = self.by_fact.get(fact, 0) + 1
        nt = (exp if expkey is None else expkey) != TRIVIAL_DEFAULT[fam]
        if nt:
            self.nontrivial.add(fact + "@" + where)
            if fact not in self.samples:
                self.samples[fact] = dict(cell=where, fact=fact, expected=_show(exp), observed=_show(obs),
                                          config="/".join(self.cfg))
        if not ok or (self.want and self.want == fact):
            rec = dict(fact=fact, cell=where, expected=_show(exp), observed=_show(obs), ok=bool(ok), row=self.cur_row,
                       sig="c17|%s|%s|%s|%s" % (fact, el.sigcat, nclass, "exceeds-bound" if fam == "size" else
                                                "exp%s-obs%s" % (_show(exp), _show(obs))))
            if not ok:
                self.mism.append(rec)
            if self.want:
                self.replayed.append(rec)

    def nx_cells(self, prefix, what, el, nclass, where, n, vals, idx, t, reloc):
        exp = exp_noexcept(n, reloc, t["nmc"], t["nma"], t["nsw"])
        for k, e in zip(("mc", "ma", "sw", "fsw"), exp):
            self.cell("nx", "%s.noexcept_%s" % (what, k), el, nclass, where, bool(e), bool(vals[idx[prefix + "_" + k]]))
        return exp

    def flatset_cells(self, prefix, what, el, nclass, where, vals, idx, t, vec_reloc, vec_sw):
        """FlatSet::trivially_relocatable == Compare && VecType;  swap noexcept == vector swap && Compare swappable."""
        for c in CMP_TAGS:
            p = "%s%s" % (prefix, c[1])
            w = where + "+" + c
            self.cell("reloc", "%s(%s).reloc" % (what, c), el, nclass, w, bool(t[c + "_reloc_exp"] and vec_reloc),
                      bool(vals[idx[p + "_reloc"]]))
            self.cell("nx", "%s(%s).noexcept_sw" % (what, c), el, nclass, w, bool(vec_sw and t[c + "_nsw"]),
                      bool(vals[idx[p + "_sw"]]))

    def size_cell(self, what, el, nclass, where, n, t, vec_sz, obs):
        fits, bound = exp_size_bound(n, t["sz"], t["al"], vec_sz, self.ptr[0], self.ptr[1])
        self.cell("size", what + ".sizeof", el, nclass, where, "<=%d" % bound, obs, ok=(obs <= bound),
                  expkey="fits" if fits else "inline")
        over = obs - vec_sz - (0 if fits else n * t["sz"])
        self.overhead[over] = self.overhead.get(over, 0) + 1
        if not fits:
            sl = bound - obs
            if self.min_slack is None or sl < self.min_slack:
                self.min_slack = sl

    def nclass(self, n, t):
        if n == 0:
            return "N0"
        return "Nfit" if n * t["sz"] <= self.ptr[0] else "Ninl"

    # -- rows -------------------------------------------------------------------------------------------------------
    def feed(self, kind, a, b, c, vals):
        idx = FIELD_IDX[kind]
        if len(vals) != len(idx):
            raise RuntimeError("row %s %s %s %s: %d values, schema has %d" % (kind, a, b, c, len(vals), len(idx)))
        self.cur_row = [kind, a, b, c]
        getattr(self, "row_" + ("3x" if kind == "3" else kind))(a, b, c, vals, idx)

    def row_H(self, a, b, c, v, idx):
        self.ptr = (v[idx["ptr_sz"]], v[idx["ptr_al"]])

    def row_K(self, a, b, c, v, idx):
        el = Elem(a)
        if not el.std and ((v[idx["sz"]], v[idx["al"]]) != (el.s, el.a)
                           or bool(v[idx["tc"]]) != (not CATS[el.cat]["user"])):
            raise RuntimeError("generator: %s is not the type its name says: %r" % (a, v))
        self.ktc[a] = bool(v[idx["tc"]])

    def row_E(self, a, b, c, v, idx):
        el = Elem(a)
        t = {k: v[idx[k]] for k in ("sz", "al")}
        for k in ("tc", "td", "nmc", "nma", "nsw"):
            t[k] = bool(v[idx[k]])
        # generator sanity (not a property of the library): the type is what its name says
        if not el.pair and not el.std:
            cat = CATS[el.cat]
            if (t["sz"], t["al"]) != (el.s, el.a) or t["tc"] != (not cat["user"]):
                raise RuntimeError("generator: %s is not the type its name says: %r" % (a, t))
            if cat["user"] and (t["nmc"], t["nma"], t["td"], t["nsw"]) != (
                    cat["mc"], cat["ma"], not cat["dtor"], bool(cat.get("adl")) or (cat["mc"] and cat["ma"])):
                raise RuntimeError("generator: %s does not have the moves/dtor/swap its category says: %r" % (a, t))
        t["reloc_exp"] = exp_reloc_elem(el, t["tc"], self.ktc)
        for cn, _, cempty, ctc, cdecl in COMPARATORS:
            if (bool(v[idx[cn + "_empty"]]), bool(v[idx[cn + "_tc"]])) != (cempty, ctc):
                raise RuntimeError("generator: comparator %s empty/trivially-copyable is not as designed" % cn)
            t[cn + "_nsw"] = bool(v[idx[cn + "_nsw"]])
            t[cn + "_reloc_exp"] = exp_reloc_cmp(v[idx[cn + "_tc"]], cdecl)
        self.tr[a] = t
        self.vsz[(a, "u32")] = v[idx["v_sz"]]
        self.cell("reloc", "elem.reloc", el, "-", a, t["reloc_exp"], bool(v[idx["reloc"]]))
        # the trait the documented swap condition is written with (the library's own code before C++17)
        self.cell("nx", "elem.is_nothrow_swappable", el, "-", a, t["nsw"], bool(v[idx["nsw_amc"]]))
        for cn in CMP_TAGS:
            self.cell("reloc", "cmp(%s).reloc" % cn, el, "-", a + "+" + cn, t[cn + "_reloc_exp"],
                      bool(v[idx[cn + "_reloc"]]))
        w = "amc::vector<%s>" % a
        # amc::vector is always trivially relocatable; it is the N == 0 case of the documented noexcept conditions
        self.cell("reloc", "vector.reloc", el, "N0", w, True, bool(v[idx["v_reloc"]]))
        ex = self.nx_cells("v", "vector", el, "N0", w, 0, v, idx, t, t["reloc_exp"])
        self.flatset_cells("f", "flatset/vector", el, "N0", "FlatSet<%s>" % w, v, idx, t, True, ex[2])

    def row_Q(self, a, b, c, v, idx):
        el = Elem(a)
        if v[idx["set_tc"]]:
            raise RuntimeError("std::set is trivially copyable?")
        # std::set: not trivially copyable, declares nothing -> not relocatable
        self.cell("setreloc", "stdset.reloc", el, "-", "std::set<%s>" % a, False, bool(v[idx["set_reloc"]]))

    def row_S(self, a, b, c, v, idx):
        el, t = Elem(a), self.tr[a]
        self.vsz[(a, c)] = v[idx["v_sz"]]
        w = "amc::vector<%s,%s>" % (a, c)
        self.cell("reloc", "vector[S].reloc", el, "N0", w, True, bool(v[idx["v_reloc"]]))
        self.nx_cells("v", "vector[S]", el, "N0", w, 0, v, idx, t, t["reloc_exp"])

    def row_N(self, a, b, c, v, idx):
        el, t, n = Elem(a), self.tr[a], int(b)
        nc = self.nclass(n, t)
        r = t["reloc_exp"]
        # SmallVector<E,N>: N == 0 *is* amc::vector (documented alias), which is always relocatable
        w = "SmallVector<%s,%d>" % (a, n)
        sv_reloc = True if n == 0 else r
        self.size_cell("smallvector", el, nc, w, n, t, self.vsz[(a, "u32")], v[idx["sv_sz"]])
        self.cell("reloc", "smallvector.reloc", el, nc, w, sv_reloc, bool(v[idx["sv_reloc"]]))
        ex = self.nx_cells("sv", "smallvector", el, nc, w, n, v, idx, t, r)
        self.flatset_cells("fs", "flatset/smallvector", el, nc, "FlatSet<%s>" % w, v, idx, t, sv_reloc, ex[2])
        # FixedCapacityVector<E,N>
        w = "FixedCapacityVector<%s,%d>" % (a, n)
        self.cell("td", "fixedcapacityvector.trivially_destructible", el, nc, w, t["td"], bool(v[idx["fv_td"]]))
        self.cell("st", "fixedcapacityvector.size_type", el, nc, w, exp_smallest_size_type(n), v[idx["fv_st"]])
        self.cell("st", "SmallestSizeType", el, nc, "SmallestSizeType<%d>" % n, exp_smallest_size_type(n), v[idx["sst"]])
        self.cell("reloc", "fixedcapacityvector.reloc", el, nc, w, r, bool(v[idx["fv_reloc"]]))
        ex = self.nx_cells("fv", "fixedcapacityvector", el, nc, w, n, v, idx, t, r)
        self.flatset_cells("ff", "flatset/fixedcapacityvector", el, nc, "FlatSet<%s>" % w, v, idx, t, r, ex[2])

    def row_T(self, a, b, c, v, idx):
        el, t, n = Elem(a), self.tr[a], int(b)
        nc = self.nclass(n, t)
        w = "SmallVector<%s,%d,%s>" % (a, n, c)
        self.size_cell("smallvector[S]", el, nc, w, n, t, self.vsz[(a, c)], v[idx["sv_sz"]])
        self.cell("reloc", "smallvector[S].reloc", el, nc, w, True if n == 0 else t["reloc_exp"], bool(v[idx["sv_reloc"]]))
        self.nx_cells("sv", "smallvector[S]", el, nc, w, n, v, idx, t, t["reloc_exp"])

    def row_M(self, a, b, c, v, idx):
        el, t, n = Elem(a), self.tr[a], int(b)
        nc = self.nclass(n, t)
        r = t["reloc_exp"]
        w = "FixedCapacityVector<%s,%d,Unchecked>" % (a, n)
        self.cell("td", "fixedcapacityvector.trivially_destructible", el, nc, w, t["td"], bool(v[idx["uv_td"]]))
        self.cell("reloc", "fixedcapacityvector.reloc", el, nc, w, r, bool(v[idx["uv_reloc"]]))
        # SmallSet == inline vector && backing set; std::set is never relocatable, FlatSet<E,cmp> == cmp && vector
        self.cell("setreloc", "smallset/stdset.reloc", el, nc, "SmallSet<%s,%d>" % (a, n), False, bool(v[idx["ms_reloc"]]))
        for cn in CMP_TAGS:
            self.cell("reloc", "smallset/flatset(%s).reloc" % cn, el, nc, "SmallSet<%s,%d,FlatSet+%s>" % (a, n, cn),
                      bool(r and t[cn + "_reloc_exp"]), bool(v[idx["mf%s_reloc" % cn[1]]]))

    def _single_reloc(self, name):
        return exp_reloc_elem(Elem(name), self.ktc[name])

    def row_P(self, a, b, c, v, idx):
        self.cell("reloc", "pair.reloc", Elem(a), "-", "std::pair<%s,%s>" % (a, b),
                  self._single_reloc(a) and self._single_reloc(b), bool(v[idx["reloc"]]))

    def row_3x(self, a, b, c, v, idx):
        self.cell("reloc", "pair.reloc", Elem(a), "-", "std::pair<std::pair<%s,%s>,%s>" % (a, b, c),
                  self._single_reloc(a) and self._single_reloc(b) and self._single_reloc(c), bool(v[idx["reloc"]]))


def _show(x):
    return int(x) if isinstance(x, bool) else x


# =====================================================================================================================
# 4. Building, running and judging one set of rows under one configuration
# =====================================================================================================================

def write_source(rows, tag):
    text = gen_tu(rows)
    os.makedirs(GEN_DIR, exist_ok=True)
    path = os.path.join(GEN_DIR, "%s-%s.cpp" % (tag, hashlib.sha256(text.encode()).hexdigest()[:12]))
    if not os.path.exists(path):
        tmp = path + ".tmp%d" % os.getpid()
        with open(tmp, "w") as fh:
            fh.write(text)
        os.rename(tmp, path)
    return path


def decide(rows, cfg, src, tag, want=None):
    """Compile + run the TU under cfg = [compiler, standard]; judge every printed row.  Returns the Judge."""
    cxx, std = cfg
    btag = "c17-%s-%s-%s" % (tag, cxx.replace("+", "x"), std.replace("+", "x"))
    for attempt in (1, 2, 3):
        try:
            exe = vlib.build(src, ["-std=" + std, "-O0", "-w"], btag, cxx=cxx, extra_inputs=[src], timeout=1800)
            break
        except vlib.BuildError as e:
            # A compiler that crashes (seen once: clang 14 dying with a stack dump while 16 builds ran on a loaded
            # machine; the same command succeeds when repeated) says nothing about the tree: retry those.  An
            # ill-formed instantiation fails with ordinary diagnostics and is reported at once.
            crashed = any(s in e.out for s in ("Stack dump", "internal compiler error", "PLEASE submit a bug report",
                                               "unable to rename temporary", "Killed", "Segmentation fault"))
            if not crashed or attempt == 3:
                raise
    rc, out, err = vlib.run([exe], timeout=600)
    if rc != 0:
        raise RuntimeError("table printer %s exited %d: %s" % (exe, rc, err[-500:]))
    j = Judge(cfg)
    if want:
        j.want, j.replayed = want, []
    cxx17 = std in ("c++17", "c++20", "c++23")
    expected_rows = [r for r in rows if cxx17 or not ROWS[r[0]].get("cxx17")]
    lines = out.splitlines()
    if len(lines) != len(expected_rows):
        raise RuntimeError("%s printed %d rows, %d expected" % (exe, len(lines), len(expected_rows)))
    for r, ln in zip(expected_rows, lines):
        p = ln.split(" ")
        if p[:4] != [str(x) for x in r] or int(p[4]) != len(p) - 5:
            raise RuntimeError("row mismatch: wanted %r got %r" % (r, p[:5]))
        j.feed(p[0], p[1], p[2], p[3], [int(x) for x in p[5:]])
    return j


def element_rows(name, ns, boundary_ns):
    """All rows of one element type: E, Q, S x 6, then for every N: N, T x (size types admitting N), M (N <= 64)."""
    rows = [["E", name, "-", "-"], ["Q", name, "-", "-"]]
    rows += [["S", name, "-", s] for s, _, _ in STYPES]
    for n in list(ns) + list(boundary_ns):
        rows.append(["N", name, str(n), "-"])
        rows += [["T", name, str(n), s] for s, _, m in STYPES if n < m]   # Vector's static_assert: N < max(S)
        if n <= SMALLSET_MAX_N:
            rows.append(["M", name, str(n), "-"])
    return rows


def support_rows(row):
    """Rows that must precede `row` for the oracle to have its inputs (used by the single-cell replay)."""
    k = row[0]
    pre = [["H", "-", "-", "-"]]
    if k in ("P", "3"):
        seen = []
        for t in row_types(row):
            if t not in seen:
                seen.append(t)
                pre.append(["K", t, "-", "-"])
    elif k != "H":
        pre += [["K", d, "-", "-"] for d in Elem(row[1]).deps()[:-1]]     # components of a pair element type
        if k != "E":
            pre.append(["E", row[1], "-", "-"])
        if k == "T":
            pre.append(["S", row[1], "-", row[3]])
    return pre + ([row] if k != "H" else [])


def run_chunk(spec):
    """Sub-process body: spec = {tag, rows, configs}.  Prints a JSON summary."""
    rows, tag = spec["rows"], spec["tag"]
    res = dict(tag=tag, evals=0, per_config={}, by_fact={}, mism={}, overhead={}, min_slack=None, samples={},
               nrows=len(rows), builds=0)
    nontrivial = set()
    try:
        src = write_source(rows, tag)
        for cfg in spec["configs"]:
            j = decide(rows, cfg, src, tag)
            key = "/".join(cfg)
            res["builds"] += 1
            res["evals"] += j.evals
            res["per_config"][key] = j.evals
            for f, c in j.by_fact.items():
                res["by_fact"][f] = res["by_fact"].get(f, 0) + c
            for o, c in j.overhead.items():
                res["overhead"][str(o)] = res["overhead"].get(str(o), 0) + c
            if j.min_slack is not None and (res["min_slack"] is None or j.min_slack < res["min_slack"]):
                res["min_slack"] = j.min_slack
            for f, s in j.samples.items():
                res["samples"].setdefault(f, s)
            for m in j.mism:      # aggregate per signature: first cell, count, configurations, a few more cells
                g = res["mism"].setdefault(m["sig"], dict(first=dict(m, cxx=cfg[0], std=cfg[1]), count=0, configs=[],
                                                          cells=[]))
                g["count"] += 1
                if key not in g["configs"]:
                    g["configs"].append(key)
                if len(g["cells"]) < 8 and m["cell"] not in g["cells"]:
                    g["cells"].append(m["cell"])
            nontrivial |= j.nontrivial      # the union over configurations: a cell is counted once
    except vlib.BuildError as e:
        res["build_error"] = dict(cmd=e.cmd, out=e.out[-6000:])
    res["distinct_nontrivial"] = len(nontrivial)
    return res


# =====================================================================================================================
# 5. The check
# =====================================================================================================================

def plan(tier):
    """The complete list of chunks (each a list of rows) of a tier."""
    tp = tier_params(tier)
    shp = shapes(tp["sizes"])
    chunks = []
    head = [["H", "-", "-", "-"]]
    # (a) single element types: category x shape x N x size_type; the 1-byte types of every category and two
    #     trivial shapes also carry the SmallestSizeType boundaries (sizeof only -- no object is ever created)
    boundary_elems = set([ename(c, 1, 1) for c in CAT_ORDER] + [ename("triv", 3, 1), ename("triv", 16, 16)])
    names = [ename(c, s, a) for (s, a) in shp for c in CAT_ORDER]
    for i in range(0, len(names), tp["types_per_chunk"]):
        rows = list(head)
        for nm in names[i:i + tp["types_per_chunk"]]:
            rows += element_rows(nm, tp["ns"], BOUNDARY_NS if nm in boundary_elems else [])
        chunks.append(("el%03d" % (i // tp["types_per_chunk"]), rows))
    # (b) std::pair<A,B> as element type (A, B of the five named categories, one shape)
    pnames = [pname(a, b) for a in PAIR_ELEM_CATS for b in PAIR_ELEM_CATS]
    for i in range(0, len(pnames), tp["types_per_chunk"]):
        rows = list(head)
        for nm in pnames[i:i + tp["types_per_chunk"]]:
            rows += [["K", d, "-", "-"] for d in Elem(nm).deps()[:2]]
            rows += element_rows(nm, tp["pair_ns"], [])
        chunks.append(("pe%03d" % (i // tp["types_per_chunk"]), rows))
    # (b') standard-library element types (same rows, same N range as the pair elements).  All rows only instantiate
    #      class templates and evaluate unevaluated operands, so the move-only std::unique_ptr<int> compiles too (probed).
    for i in range(0, len(STD_ELEMS), tp["types_per_chunk"]):
        rows = list(head)
        for nm in STD_ELEMS[i:i + tp["types_per_chunk"]]:
            rows += [["K", d, "-", "-"] for d in Elem(nm).deps()[:-1]]
            rows += element_rows(nm, tp["pair_ns"], [])
        chunks.append(("sx%03d" % (i // tp["types_per_chunk"]), rows))
    # (c) is_trivially_relocatable<pair<A,B>>: every type of the family against every category at three partner
    #     shapes, both orders; nested pairs over category^3 at one shape
    partners = [ename(c, s, a) for (s, a) in PAIR_PARTNER_SHAPES for c in CAT_ORDER]
    per = 12
    for i in range(0, len(names), per):
        grp = names[i:i + per]
        rows = list(head) + [["K", t, "-", "-"] for t in dict.fromkeys(grp + partners)]
        for x in grp:
            for y in partners:
                rows.append(["P", x, y, "-"])
                rows.append(["P", y, x, "-"])
        chunks.append(("pp%03d" % (i // per), rows))
    trip = [ename(c, *PAIR_SHAPE) for c in CAT_ORDER]
    rows = list(head) + [["K", t, "-", "-"] for t in trip]
    rows += [["3", x, y, z] for x in trip for y in trip for z in trip]
    chunks.append(("p3", rows))
    return tp, chunks


def replay_cmd(m):
    cell = dict(cxx=m["cxx"], std=m["std"], row=m["row"], fact=m["fact"])
    return "python3 %s --cell '%s'" % (SELF, json.dumps(cell, separators=(",", ":")))


def run(ctx):
    tp, chunks = plan(ctx.tier)
    specs = [dict(tag="%s-%s" % (ctx.tier[0], tag), rows=rows, configs=tp["configs"]) for tag, rows in chunks]
    # biggest first so that the pool drains evenly
    order = sorted(range(len(specs)), key=lambda i: -len(specs[i]["rows"]))

    def work(i):
        rc, out, err = vlib.run([sys.executable, SELF, "--chunk"], stdin=json.dumps(specs[i]).encode(), timeout=2600)
        if rc != 0:
            raise RuntimeError("chunk %s failed (rc %d): %s" % (specs[i]["tag"], rc, err[-3000:]))
        return json.loads(out)

    results = vlib.pmap(work, order)
    for r in results:
        if "build_error" in r:
            raise vlib.BuildError(r["build_error"]["cmd"], r["build_error"]["out"])

    evals = sum(r["evals"] for r in results)
    distinct_nt = sum(r["distinct_nontrivial"] for r in results)   # chunks partition the cells: the sum is the union
    per_config, by_fact, overhead, samples = {}, {}, {}, {}
    min_slack = None
    groups = {}
    for r in results:
        for k, v in r["per_config"].items():
            per_config[k] = per_config.get(k, 0) + v
        for k, v in r["by_fact"].items():
            by_fact[k] = by_fact.get(k, 0) + v
        for k, v in r["overhead"].items():
            overhead[k] = overhead.get(k, 0) + v
        if r["min_slack"] is not None and (min_slack is None or r["min_slack"] < min_slack):
            min_slack = r["min_slack"]
        for k, v in r["samples"].items():
            samples.setdefault(k, v)
        for sig, g in r["mism"].items():
            groups.setdefault(sig, []).append(g)
    for sig in sorted(groups):
        gs = sorted(groups[sig], key=lambda g: g["first"]["cell"])
        m = gs[0]["first"]
        count = sum(g["count"] for g in gs)
        configs = sorted(set(c for g in gs for c in g["configs"]))
        cells = sorted(set(c for g in gs for c in g["cells"]))[:12]
        ctx.violation(sig, {"std": m["std"], "cxx": m["cxx"], "cell": m["cell"], "fact": m["fact"],
                            "expected": m["expected"], "observed": m["observed"], "cmd": replay_cmd(m),
                            "cells_with_this_signature": count, "configs": configs, "more_cells": cells},
                      "%s of %s: expected %s, compiler says %s (%s %s); %d cells share this signature"
                      % (m["fact"], m["cell"], m["expected"], m["observed"], m["cxx"], m["std"], count))

    shp = shapes(tp["sizes"])
    coverage = {
        "evaluations": evals,
        "distinct_nontrivial": distinct_nt,
        "rule": "a cell = (fact, instantiated type expression incl. N and size_type); it is counted once however many "
                "compilers/standards decided it, and only if the value the oracle expects differs from the trivial "
                "default of its fact family, i.e. the expectation on the simplest instance (1-byte trivial element, "
                "std::less, N=0, default size_type): trivially_relocatable=true, noexcept=true, "
                "trivially_destructible=true, size_type=uint8_t, sizeof bound='<= sizeof(vector)' (N fits in a "
                "pointer), std::set-backed relocatable=false",
        "exhaustive": True,
        "samples": [samples[k] for k in sorted(samples)][:14],
        "mismatching_cells": sum(g["count"] for v in groups.values() for g in v),
        "translation_units": len(specs),
        "builds": sum(r["builds"] for r in results),
        "rows_per_standard": sum(r["nrows"] for r in results),
        "evaluations_per_config": per_config,
        "evaluations_per_fact": by_fact,
        "element_types": len(shp) * len(CAT_ORDER) + len(PAIR_ELEM_CATS) ** 2 + len(STD_ELEMS),
        "std_element_types": [STD_TYPES[n[2:]] if isinstance(STD_TYPES[n[2:]], str) else
                              "std::pair<%s, %s>" % tuple(STD_TYPES[c] for c in STD_TYPES[n[2:]]) for n in STD_ELEMS],
        "shapes": len(shp), "categories": len(CAT_ORDER),
        "N": "0..%d + boundaries %s on the 1-byte types" % (tp["ns"][-1], BOUNDARY_NS),
        "size_types": ["u32(default)"] + [s for s, _, _ in STYPES],
        "configs": ["/".join(c) for c in tp["configs"]],
        "smallvector_overhead_histogram": {k: overhead[k] for k in sorted(overhead, key=int)},
        "smallvector_overhead_meaning": "sizeof(SmallVector<E,N,A,S>) - sizeof(vector<E,A,S>) - (N*sizeof(E) when the N "
                                        "elements do not fit in a pointer, else 0) -> number of cells",
        "min_slack_to_inline_bound": min_slack,
    }
    assumptions = [
        "facts are what g++ 12 / clang++ 14 with libstdc++ decide on x86-64 (sizeof(void*) is printed, not assumed)",
        "the noexcept oracle takes the element's own nothrow-move/swappable traits as printed by the same compiler; "
        "the relocatability oracle uses only what the generated type declares and its printed is_trivially_copyable",
        "SmallSet rows exist for N <= 64 and C++17 on; (N, size_type) cells exist for N < max(size_type) "
        "(the library static_asserts both)",
        "pair<A,B> cells: every family type x 9 categories x 3 partner shapes, both orders; nested pairs at one shape",
    ]
    return ctx.finish("exploration", coverage, assumptions)


# =====================================================================================================================
# 6. CLI: --chunk (worker), --cell (replay of one cell), --show (print the TU of a cell)
# =====================================================================================================================

def replay_cell(cell, show=False):
    row = [str(x) for x in cell["row"]]
    rows = support_rows(row)
    if show:
        sys.stdout.write(gen_tu(rows))
        return 0
    cfg = [cell.get("cxx", "g++"), cell.get("std", "c++17")]
    src = write_source(rows, "cell")
    try:
        j = decide(rows, cfg, src, "cell", want=cell.get("fact") or "*")
    except vlib.BuildError as e:
        print(str(e)[-3000:])
        return 1
    print("# %s -std=%s  %s   (source: %s)" % (cfg[0], cfg[1], " ".join(row), src))
    bad = 0
    shown = j.replayed if cell.get("fact") else j.mism
    for r in shown:
        print("%-4s %s  of  %s   expected %s   observed %s" % ("ok" if r["ok"] else "FAIL", r["fact"], r["cell"],
                                                              r["expected"], r["observed"]))
        bad += not r["ok"]
    if not cell.get("fact"):
        print("%d cells judged, %d mismatching" % (j.evals, len(j.mism)))
    return 1 if bad else 0


def main(argv):
    if len(argv) >= 2 and argv[1] == "--chunk":
        json.dump(run_chunk(json.load(sys.stdin)), sys.stdout)
        return 0
    if len(argv) >= 3 and argv[1] in ("--cell", "--show"):
        return replay_cell(json.loads(argv[2]), show=(argv[1] == "--show"))
    sys.stderr.write("usage: c17.py --cell '{\"cxx\":\"g++\",\"std\":\"c++17\",\"row\":[\"N\",\"E_triv_3_1\",\"5\",\"-\"],"
                     "\"fact\":\"smallvector.sizeof\"}'\n       (normally run through  bin/check C17 --tier quick|thorough)\n")
    return 2


if __name__ == "__main__":
    sys.exit(main(sys.argv))
