// apply(): execute one operation of the alphabet on the real container and on the reference model, with the
// per-operation oracles of C01 (return values/positions), C05, C07, C08, C10.  Content comparison is in observe().
#pragma once
#include <sanitizer/asan_interface.h>

#include <optional>

#include "vec_ops.hpp"

namespace ops {

template <class X>
struct is_pair : std::false_type {};
template <class A, class B>
struct is_pair<std::pair<A, B> > : std::true_type {};

// argument used for emplace-style calls: an int for scalar-constructible elements, a prvalue T for pairs
inline auto emplace_arg(int x) {
  if constexpr (is_pair<T>::value || std::is_same<T, signed char>::value) return E::make(x);  // types whose value mapping is not the identity
  else return x;
}

struct Eff {
  bool cap_may_shrink = false;  // shrink_to_fit, move (either side), swap, or a freshly constructed object
  bool fit_rule = true;         // "resulting size fits the old capacity => no reallocation, prefix untouched"
  int touch_from = 0;
  long min_cap = -1;
  bool fresh_object = false;  // slot now holds a different object (constructed by this op)
};

inline bool g_overlimit = false;  // the last applied operation was expected to fail with a capacity error (C08)

inline int model_max(const World &w) {
  int mx = 0;
  for (int i = 0; i < w.K; ++i)
    for (int x : w.m[i].v) mx = std::max(mx, x);
  return mx;
}

inline void arm(const Snap &pre, int touch_from, long new_size) {
  vf::LedgerT &l = vf::L();
  l.prot_hits = 0;
  if (new_size <= pre.cap && touch_from > 0 && pre.data) {
    long n = std::min<long>(touch_from, std::min<long>(pre.size, new_size));
    l.prot_lo = reinterpret_cast<const char *>(pre.data);
    l.prot_hi = reinterpret_cast<const char *>(pre.data + n);
  } else {
    l.prot_lo = l.prot_hi = nullptr;
  }
}
inline void disarm() { vf::L().prot_lo = vf::L().prot_hi = nullptr; }

inline bool heap_backed(const Snap &s) { return !s.inl && s.cap > 0 && s.data != nullptr; }

/// C05/C07 checks on slot i after an operation.
inline void post(World &w, int i, const Snap &pre, const Eff &e, const char *opname) {
  V &v = w.slot[i].v();
  const long sz = (long)v.size(), cap = (long)v.capacity();
  if (!(sz <= cap)) vf::fail("C07,C01", "%s: size %ld > capacity %ld", opname, sz, cap);
  if (!((unsigned long long)cap <= (unsigned long long)v.max_size()))
    vf::fail("C07", "%s: capacity %ld > max_size %llu", opname, cap, (unsigned long long)v.max_size());
  if (!e.fresh_object) {
    if (!e.cap_may_shrink && cap < pre.cap) vf::fail("C07", "%s: capacity decreased %ld -> %ld", opname, pre.cap, cap);
    if (e.min_cap >= 0 && cap < e.min_cap) vf::fail("C07", "%s: capacity %ld < reserved %ld", opname, cap, e.min_cap);
    // C18: whenever a dynamic vector has to grow (not through reserve / move / swap) the new capacity is at least
    // 1.5 x the old one (rounded up), unless limited by its size_type
    if (kDyn && e.min_cap < 0 && !e.cap_may_shrink && cap > pre.cap) {
      const long lim = (long)std::min<unsigned long long>(std::numeric_limits<ST>::max(), 1ULL << 40);
      const long want = std::min<long>((3 * pre.cap + 1) / 2, lim);
      if (cap < want) vf::fail("C18", "%s: capacity grew %ld -> %ld, less than a factor 1.5 (size %ld -> %ld)", opname, pre.cap, cap, pre.size, sz);
    }
    if (e.fit_rule && !e.cap_may_shrink && sz <= pre.cap) {
      if (v.data() != pre.data)
        vf::fail("C07", "%s: resulting size %ld fits old capacity %ld but data() changed", opname, sz, pre.cap);
      else {
        long n = std::min<long>(e.touch_from, std::min(pre.size, sz));
        for (long x = 0; x < n && x < MAXL; ++x)
          if (E::ident(v.data()[x]) != pre.ident[x]) {
            vf::fail("C07", "%s: element %ld before the point of change (%d) was replaced", opname, x, e.touch_from);
            break;
          }
        if (vf::L().prot_hits != 0)
          vf::fail("C07", "%s: %ld element operations on elements before the point of change (%d)", opname,
                   vf::L().prot_hits, e.touch_from);
      }
    }
  }
  if (kFixed) {
    if ((const void *)v.data() != w.slot[i].birth) vf::fail("C05", "%s: FixedCapacityVector begin() changed", opname);
    if (cap != N) vf::fail("C05,C07", "%s: FixedCapacityVector capacity %ld != N", opname, cap);
  }
  if (kSmall && w.m[i].ent) {
    if (cap != N) vf::fail("C05", "%s: SmallVector entitled to inline storage reports capacity %ld != N=%d", opname, cap, N);
    if (!is_inline(v)) vf::fail("C05", "%s: SmallVector entitled to inline storage keeps elements outside the object", opname);
  }
}

/// C05: no heap request while every involved container is (and stays) entitled to inline storage.
inline void chk_noalloc(bool applies, const char *opname) {
  if (!applies || W().exc) return;
  if (W().mallocs != 0) vf::fail("C05", "%s: %ld malloc calls while within inline capacity", opname, W().mallocs);
  if (W().alloc_calls != 0) vf::fail("C05", "%s: %ld allocator calls while within inline capacity", opname, W().alloc_calls);
}

inline std::vector<int> read_vals(const V &v) {
  std::vector<int> r;
  for (const T &e : v) r.push_back(E::val(e));
  return r;
}

/// SmallVector(amc::vector&&) adopting a heap buffer of capacity 1 (< N); template so that it is discarded for
/// flavours without that constructor
template <class VT>
inline void adopt_small(std::optional<VT> &opt, std::vector<int> &vals, int &base) {
  if constexpr (kSmall && N >= 2) {
    Donor d;
    ++base;
    d.push_back(E::make(base));
    vals.push_back(base);
    d.shrink_to_fit();
    opt.emplace(std::move(d));
  }
}

/// the other donor shapes of SmallVector(amc::vector&&): 7 nothing to adopt, 8 an empty buffer, 9 spare capacity
template <class VT>
inline void adopt_shape(int r, std::optional<VT> &opt, std::vector<int> &vals, int &base) {
  if constexpr (kSmall) {
    Donor d;
    if (r == 8) d.reserve(2);
    if (r == 9) {
      d.reserve(N + 2);
      ++base;
      d.push_back(E::make(base));
      vals.push_back(base);
    }
    opt.emplace(std::move(d));
    // the donor is a moved-from vector: empty and usable again
    if (!d.empty()) vf::fail("C01", "SmallVector(vector&&): the moved-from vector is not empty");
    d.push_back(E::make(0));
    if (d.size() != 1) vf::fail("C01", "SmallVector(vector&&): the moved-from vector is not usable");
  }
}

/// Build the temporary of recipe r into opt; vals receives its model contents.
inline void build_recipe(int r, std::optional<V> &opt, std::vector<int> &vals, int &base) {
  vals.clear();
  auto push = [&](V &t) {
    ++base;
    t.push_back(E::make(base));
    vals.push_back(base);
  };
  if (r == 6) {
    adopt_small<V>(opt, vals, base);
    return;
  }
  if (r >= 7) {
    adopt_shape<V>(r, opt, vals, base);
    return;
  }
  opt.emplace();
  V &t = *opt;
  switch (r) {
    case 1: push(t); break;
    case 2: for (int x = 0; x < N; ++x) push(t); break;
    case 3: t.reserve(N + 1); push(t); break;
    case 4: for (int x = 0; x < N + 1; ++x) push(t); break;
    case 5: for (int x = 0; x < N + 1; ++x) push(t); t.clear(); vals.clear(); break;
    default: break;
  }
}

/// Operations for which the headers document the strong guarantee (element moves being noexcept).
inline bool strong_guarantee(const Op &op, int sz) {
  switch (op.k) {
    case PUSH_C: case PUSH_M: case EMPLACE_BACK: case INS_C: case INS_M: case EMPLACE: case PUSH_ALIAS:
    case EMPLACE_BACK_ALIAS: case INS_ALIAS: case EMPLACE_ALIAS: case APPEND_N: case APPEND_NV: case APPEND_RANGE:
    case APPEND_IL: case APPEND_ALIAS: case RESERVE: case SHRINK:
      return true;
    case INS_N: case INS_RANGE: case INS_IL: case INS_N_ALIAS:
      return op.a == sz;  // insertion at the end
    case RESIZE: case RESIZE_V: case RESIZE_ALIAS:
      return op.a > sz;  // growing resize
    default:
      return false;
  }
}

/// After an injected fault: every container must be in a consistent state (checked by observe() and the ledgers);
/// strong-guarantee operations must have left the target untouched, const sources must be untouched; the model
/// is then re-read from the containers so that exploration continues from the state the fault left behind.
inline void fault_epilogue(World &w, const Op &op, const std::vector<int> *pre_model, int sz) {
  const char *nm = kind_name(op.k);
  for (int x = 0; x < w.K; ++x) {
    V &c = w.slot[x].v();
    if (!((long)c.size() <= (long)c.capacity())) vf::fail("C09", "%s after a fault: size %ld > capacity %ld", nm, (long)c.size(), (long)c.capacity());
    std::vector<int> now = read_vals(c);
    const bool is_target = x == op.i;
    const bool fresh = op.k == COPY_CONSTRUCT || op.k == COPY_CTOR_T || op.k == CTOR_COUNT || op.k == CTOR_COUNT_V || op.k == CTOR_RANGE || op.k == CTOR_IL;
    if (is_target && fresh) {
      // the constructor threw: no object exists (the harness put an empty one in the slot)
    } else if (is_target && op.k == COPY_CTOR_SELF) {
      if (now != pre_model[x]) vf::fail("C09", "failed copy construction modified its source");
    } else if (is_target) {
      if (strong_guarantee(op, sz) && now != pre_model[x])
        vf::fail("C09", "%s: strong exception guarantee broken (contents changed by the failed call, size %zu -> %zu)", nm, pre_model[x].size(), now.size());
    } else if (now != pre_model[x]) {
      vf::fail("C09", "%s: failed call modified another container", nm);
    }
    w.m[x].v = now;
    w.m[x].ent = false;  // C05 is not quantified over faults: a failed growth may legitimately leave a heap buffer
  }
}

inline void apply(World &w, const Op &op) {
  const char *nm = kind_name(op.k);
  const int i = op.i;
  Slot &S = w.slot[i];
  MS &m = w.m[i];
  V *vp = &S.v();
#define VV (*vp)
  const Snap pre = snap(VV);
  const int sz = (int)m.v.size();
  int base = model_max(w);
  g_cur_fault = op.f;
  std::vector<int> pre_model[MAXK];
  if (op.f)
    for (int x = 0; x < w.K; ++x) pre_model[x] = w.m[x].v;
  Eff e;
  const bool ent0 = m.ent;
  auto over = [&](long ns) { return kFixedThrow && ns > N; };
  // run call inside a window; expect out_of_range iff the resulting size exceeds a throwing fixed capacity
  auto exec = [&](long ns, int touch_from, auto &&call, auto &&model) {
    e.touch_from = touch_from;
    arm(pre, touch_from, ns);
    win(call);
    disarm();
    if (faulted()) return;  // handled by fault_epilogue()
    if (over(ns)) {
      g_overlimit = true;
      if (!W().exc || W().exc_kind != 1)
        vf::fail("C08,C01", "%s: exceeding fixed capacity (%ld > %d) %s", nm, ns, N, W().exc ? "threw the wrong exception type" : "did not throw");
      if ((long)VV.capacity() != pre.cap) vf::fail("C08", "%s: capacity changed by a failed call", nm);
    } else {
      if (W().exc) vf::fail("C01", "%s: unexpected exception (kind %d)", nm, W().exc_kind);
      model();
      if ((int)m.v.size() > N) m.ent = false;
    }
    bool applies = kFixed || (kSmall && ent0 && m.ent);
    chk_noalloc(applies, nm);
    post(w, i, pre, e, nm);
  };
  auto fresh_vals = [&](int n) {
    std::vector<int> r;
    for (int x = 0; x < n; ++x) r.push_back(++base);
    return r;
  };
  auto chk_pos = [&](long got, long want) {
    if (got != want) vf::fail("C01", "%s: returned position %ld, std::vector returns %ld", nm, got, want);
  };
  // replace the object held by slot s with one constructed by ctor(void* where); old object destroyed first
  auto replace = [&](int s, auto &&ctor) {
    Slot &R = w.slot[s];
    R.v().~V();
    R.alive = false;
    win([&] { ctor(R.raw()); });
    if (W().exc) {
      ::new (R.raw()) V();
    }
    R.alive = true;
    R.birth = R.v().data();
  };

  switch (op.k) {
    case PUSH_C: {
      int x = ++base;
      T t = E::make(x);
      exec(sz + 1, sz, [&] { VV.push_back(t); }, [&] { m.v.push_back(x); });
    } break;
    case PUSH_M: {
      int x = ++base;
      T t = E::make(x);
      exec(sz + 1, sz, [&] { VV.push_back(std::move(t)); }, [&] { m.v.push_back(x); });
    } break;
    case EMPLACE_BACK: {
      int x = ++base;
      const T *ret = nullptr;
      auto arg = emplace_arg(x);
      exec(sz + 1, sz, [&] { ret = &VV.emplace_back(std::move(arg)); }, [&] {
        m.v.push_back(x);
        if (ret != VV.data() + sz) vf::fail("C01", "emplace_back: returned reference is not back()");
      });
    } break;
    case POP:
      exec(sz - 1, sz - 1, [&] { VV.pop_back(); }, [&] { m.v.pop_back(); });
      break;
    case POPVAL: {
#ifdef AMC_NONSTD_FEATURES
      int got = -1;
      exec(sz - 1, sz - 1, [&] { T r = VV.pop_back_val(); got = E::val(r); }, [&] {
        if (got != m.v.back()) vf::fail("C01", "pop_back_val returned %d, expected %d", got, m.v.back());
        m.v.pop_back();
      });
#endif
    } break;
    case INS_C: {
      int x = ++base, p = op.a;
      long ret = -1;
      T t = E::make(x);
      exec(sz + 1, p, [&] { { auto it_ = VV.insert(VV.begin() + p, t); ret = it_ - VV.begin(); } }, [&] { m.v.insert(m.v.begin() + p, x); chk_pos(ret, p); });
    } break;
    case INS_M: {
      int x = ++base, p = op.a;
      long ret = -1;
      T t = E::make(x);
      exec(sz + 1, p, [&] { { auto it_ = VV.insert(VV.begin() + p, std::move(t)); ret = it_ - VV.begin(); } }, [&] { m.v.insert(m.v.begin() + p, x); chk_pos(ret, p); });
    } break;
    case EMPLACE: {
      int x = ++base, p = op.a;
      long ret = -1;
      auto arg = emplace_arg(x);
      exec(sz + 1, p, [&] { { auto it_ = VV.emplace(VV.begin() + p, std::move(arg)); ret = it_ - VV.begin(); } }, [&] { m.v.insert(m.v.begin() + p, x); chk_pos(ret, p); });
    } break;
    case INS_N: {
      int x = ++base, p = op.a, n = op.b;
      long ret = -1;
      T t = E::make(x);
      exec(sz + n, p, [&] { { auto it_ = VV.insert(VV.begin() + p, (typename V::size_type)n, t); ret = it_ - VV.begin(); } }, [&] { m.v.insert(m.v.begin() + p, n, x); chk_pos(ret, p); });
    } break;
    case INS_RANGE: {
      int p = op.a, n = op.b;
      std::vector<int> vals = fresh_vals(n);
      long ret = -1;
      with_range(op.c, vals, [&](auto f, auto l) {
        exec(sz + n, p, [&] { { auto it_ = VV.insert(VV.begin() + p, f, l); ret = it_ - VV.begin(); } }, [&] { m.v.insert(m.v.begin() + p, vals.begin(), vals.end()); chk_pos(ret, p); });
      });
    } break;
    case INS_IL: {
      int p = op.a, n = op.b;
      std::vector<int> vals = fresh_vals(3);
      vals.resize(n);
      T a = E::make(n > 0 ? vals[0] : 0), b = E::make(n > 1 ? vals[1] : 0), c = E::make(n > 2 ? vals[2] : 0);
      long ret = -1;
      exec(sz + n, p, [&] {
        auto it = VV.begin() + p;
        if (n == 0) { auto it_ = VV.insert(it, std::initializer_list<T>{}); ret = it_ - VV.begin(); }
        else if (n == 1) { auto it_ = VV.insert(it, {a}); ret = it_ - VV.begin(); }
        else if (n == 2) { auto it_ = VV.insert(it, {a, b}); ret = it_ - VV.begin(); }
        else { auto it_ = VV.insert(it, {a, b, c}); ret = it_ - VV.begin(); }
      }, [&] { m.v.insert(m.v.begin() + p, vals.begin(), vals.end()); chk_pos(ret, p); });
    } break;
    case ERASE: {
      int p = op.a;
      long ret = -1;
      exec(sz - 1, p, [&] { { auto it_ = VV.erase(VV.begin() + p); ret = it_ - VV.begin(); } }, [&] { m.v.erase(m.v.begin() + p); chk_pos(ret, p); });
    } break;
    case ERASE_R: {
      int a = op.a, b = op.b;
      long ret = -1;
      exec(sz - (b - a), a, [&] { { auto it_ = VV.erase(VV.begin() + a, VV.begin() + b); ret = it_ - VV.begin(); } }, [&] { m.v.erase(m.v.begin() + a, m.v.begin() + b); chk_pos(ret, a); });
    } break;
    case RESIZE: {
      int n = op.a;
      exec(n, std::min(n, sz), [&] { VV.resize((typename V::size_type)n); }, [&] { m.v.resize(n, 0); });
    } break;
    case RESIZE_V: {
      int n = op.a, x = ++base;
      T t = E::make(x);
      exec(n, std::min(n, sz), [&] { VV.resize((typename V::size_type)n, t); }, [&] { m.v.resize(n, x); });
    } break;
    case ASSIGN_N: {
      int n = op.a, x = ++base;
      T t = E::make(x);
      exec(n, 0, [&] { VV.assign((typename V::size_type)n, t); }, [&] { m.v.assign(n, x); });
    } break;
    case ASSIGN_RANGE: {
      int n = op.a;
      std::vector<int> vals = fresh_vals(n);
      with_range(op.b, vals, [&](auto f, auto l) { exec(n, 0, [&] { VV.assign(f, l); }, [&] { m.v = vals; }); });
    } break;
    case ASSIGN_IL:
    case OPEQ_IL: {
      int n = op.a;
      std::vector<int> vals = fresh_vals(3);
      vals.resize(n);
      T a = E::make(n > 0 ? vals[0] : 0), b = E::make(n > 1 ? vals[1] : 0), c = E::make(n > 2 ? vals[2] : 0);
      const bool asg = op.k == OPEQ_IL;
      exec(n, 0, [&] {
        if (n == 0) { if (asg) VV = std::initializer_list<T>{}; else VV.assign(std::initializer_list<T>{}); }
        else if (n == 1) { if (asg) VV = {a}; else VV.assign({a}); }
        else if (n == 2) { if (asg) VV = {a, b}; else VV.assign({a, b}); }
        else { if (asg) VV = {a, b, c}; else VV.assign({a, b, c}); }
      }, [&] { m.v = vals; });
    } break;
    case CLEAR:
      exec(0, 0, [&] { VV.clear(); }, [&] { m.v.clear(); });
      break;
    case RESERVE: {
      int n = op.a;
      e.min_cap = n;
      if (n > pre.cap) e.fit_rule = false;
      // reserve beyond a fixed capacity throws (throwing policy); for dynamic vectors it may exceed N
      arm(pre, sz, n > pre.cap ? pre.cap + 1 : sz);
      e.touch_from = sz;
      win([&] { VV.reserve((typename V::size_type)n); });
      disarm();
      if (faulted()) break;
      if (kFixedThrow && n > N) {
        g_overlimit = true;
        if (!W().exc || W().exc_kind != 1) vf::fail("C08,C01", "reserve(%d) beyond fixed capacity did not throw out_of_range", n);
        e.min_cap = -1;
      } else if (W().exc) {
        vf::fail("C01", "reserve: unexpected exception");
        e.min_cap = -1;
      }
      if (kSmall && n > N) m.ent = false;
      chk_noalloc(kFixed || (kSmall && ent0 && m.ent), nm);
      post(w, i, pre, e, nm);
    } break;
    case SHRINK: {
      e.cap_may_shrink = true;
      win([&] { VV.shrink_to_fit(); });
      if (faulted()) break;
      if (W().exc) vf::fail("C01", "shrink_to_fit: unexpected exception");
      if (kSmall && sz <= N) m.ent = true;
      chk_noalloc(kFixed || (kSmall && ent0), nm);
      post(w, i, pre, e, nm);
      if (kDyn) {
        // C18 part: capacity == size, or N and inline when the elements fit there
        long want = (kSmall && sz <= N) ? N : sz;
        if ((long)VV.capacity() != want) vf::fail("C18,C07", "shrink_to_fit: capacity %ld, expected %ld", (long)VV.capacity(), want);
        if (kSmall && sz <= N && !is_inline(VV)) vf::fail("C18,C05", "shrink_to_fit: the elements fit the inline capacity but stay on the heap");
      }
    } break;
    case APPEND_N: {
#ifdef AMC_NONSTD_FEATURES
      int n = op.a;
      exec(sz + n, sz, [&] { VV.append((typename V::size_type)n); }, [&] { m.v.resize(sz + n, 0); });
#endif
    } break;
    case APPEND_NV: {
#ifdef AMC_NONSTD_FEATURES
      int n = op.a, x = ++base;
      T t = E::make(x);
      exec(sz + n, sz, [&] { VV.append((typename V::size_type)n, t); }, [&] { m.v.resize(sz + n, x); });
#endif
    } break;
    case APPEND_RANGE: {
#ifdef AMC_NONSTD_FEATURES
      int n = op.a;
      std::vector<int> vals = fresh_vals(n);
      with_range(op.b, vals, [&](auto f, auto l) { exec(sz + n, sz, [&] { VV.append(f, l); }, [&] { m.v.insert(m.v.end(), vals.begin(), vals.end()); }); });
#endif
    } break;
    case APPEND_IL: {
#ifdef AMC_NONSTD_FEATURES
      int n = op.a;
      std::vector<int> vals = fresh_vals(3);
      vals.resize(n);
      T a = E::make(n > 0 ? vals[0] : 0), b = E::make(n > 1 ? vals[1] : 0), c = E::make(n > 2 ? vals[2] : 0);
      exec(sz + n, sz, [&] {
        if (n == 0) VV.append(std::initializer_list<T>{});
        else if (n == 1) VV.append({a});
        else if (n == 2) VV.append({a, b});
        else VV.append({a, b, c});
      }, [&] { m.v.insert(m.v.end(), vals.begin(), vals.end()); });
#endif
    } break;
    // ---- aliasing forms (C10): the argument refers to an element of the vector itself -----------------------------
    case PUSH_ALIAS: {
      int s = op.a, x = m.v[s];
      exec(sz + 1, sz, [&] { VV.push_back(VV[s]); }, [&] { m.v.push_back(x); });
    } break;
    case EMPLACE_BACK_ALIAS: {
      int s = op.a, x = m.v[s];
      exec(sz + 1, sz, [&] { VV.emplace_back(VV[s]); }, [&] { m.v.push_back(x); });
    } break;
    case INS_ALIAS: {
      int p = op.a, s = op.b, x = m.v[s];
      long ret = -1;
      exec(sz + 1, p, [&] { { auto it_ = VV.insert(VV.begin() + p, VV[s]); ret = it_ - VV.begin(); } }, [&] { m.v.insert(m.v.begin() + p, x); chk_pos(ret, p); });
    } break;
    case INS_N_ALIAS: {
      int p = op.a, n = op.b, s = op.c, x = m.v[s];
      long ret = -1;
      exec(sz + n, p, [&] { { auto it_ = VV.insert(VV.begin() + p, (typename V::size_type)n, VV[s]); ret = it_ - VV.begin(); } }, [&] { m.v.insert(m.v.begin() + p, n, x); chk_pos(ret, p); });
    } break;
    case EMPLACE_ALIAS: {
      int p = op.a, s = op.b, x = m.v[s];
      long ret = -1;
      exec(sz + 1, p, [&] { { auto it_ = VV.emplace(VV.begin() + p, VV[s]); ret = it_ - VV.begin(); } }, [&] { m.v.insert(m.v.begin() + p, x); chk_pos(ret, p); });
    } break;
    case RESIZE_ALIAS: {
      int n = op.a, s = op.b, x = m.v[s];
      exec(n, std::min(n, sz), [&] { VV.resize((typename V::size_type)n, VV[s]); }, [&] { m.v.resize(n, x); });
    } break;
    case ASSIGN_ALIAS: {
      int n = op.a, s = op.b, x = m.v[s];
      exec(n, 0, [&] { VV.assign((typename V::size_type)n, VV[s]); }, [&] { m.v.assign(n, x); });
    } break;
    case APPEND_ALIAS: {
#ifdef AMC_NONSTD_FEATURES
      int n = op.a, s = op.b, x = m.v[s];
      exec(sz + n, sz, [&] { VV.append((typename V::size_type)n, VV[s]); }, [&] { m.v.resize(sz + n, x); });
#endif
    } break;
    // ---- special members on one object ------------------------------------------------------------------------------
    case SELF_COPY_ASSIGN: {
      V &alias = VV;
      exec(sz, sz, [&] { VV = alias; }, [&] {});
    } break;
    case SELF_MOVE_ASSIGN: {
      // unspecified result in the standard (libstdc++ empties, amc keeps): only a valid state is required
      V &alias = VV;
      e.cap_may_shrink = true;
      win([&] { VV = std::move(alias); });
      if (faulted()) break;
      if (W().exc) vf::fail("C01", "self move assignment threw");
      m.v = read_vals(VV);
      if ((int)m.v.size() > sz) vf::fail("C01", "self move assignment grew the vector");
      post(w, i, pre, e, nm);
    } break;
    case SELF_SWAP: {
      e.cap_may_shrink = true;
      V &alias = VV;
      win([&] { VV.swap(alias); });
      if (faulted()) break;
      if (W().exc) vf::fail("C01", "self swap threw");
      chk_noalloc(kFixed || (kSmall && ent0), nm);
      post(w, i, pre, e, nm);
    } break;
    case MOVE_CTOR_SELF:
    case COPY_CTOR_SELF: {
      const bool mv = op.k == MOVE_CTOR_SELF;
      void *dst = S.other();
      ASAN_UNPOISON_MEMORY_REGION(dst, sizeof(V));  // may be the poisoned source of an earlier relocation
      vf::L().reset_counters();
      win([&] {
        typename V::allocator_type al;
        if (op.a) { if (mv) ::new (dst) V(std::move(VV), al); else ::new (dst) V(static_cast<const V &>(VV), al); }
        else { if (mv) ::new (dst) V(std::move(VV)); else ::new (dst) V(static_cast<const V &>(VV)); }
      });
      if (faulted()) break;
      if (W().exc) { vf::fail("C01", "%s threw", nm); break; }
      V &nv = *std::launder(reinterpret_cast<V *>(dst));
      if (mv) {
        if (!VV.empty()) vf::fail("C01", "moved-from vector is not empty (size %ld)", (long)VV.size());
        if (heap_backed(pre)) {
          if (nv.data() != pre.data) vf::fail("C07", "move construction from a heap-backed vector did not hand over the buffer");
          if (vf::L().elem_ops() != 0) vf::fail("C07", "move construction from a heap-backed vector performed %ld element operations", vf::L().elem_ops());
        }
        chk_noalloc(kFixed || (kSmall && ent0), nm);
      } else {
        if (read_vals(VV) != m.v) vf::fail("C01", "copy construction modified its source");
        chk_noalloc(kFixed || (kSmall && sz <= N), nm);
      }
      VV.~V();
      S.cur ^= 1;
      vp = &S.v();
      S.birth = VV.data();
      if (!mv) m.ent = sz <= N;
      e.fresh_object = true;
      post(w, i, pre, e, nm);
    } break;
    // ---- binary operations between pool members ---------------------------------------------------------------------
    case COPY_ASSIGN:
    case MOVE_ASSIGN: {
      const int j = op.j;
      V &o = w.slot[j].v();
      MS &mo = w.m[j];
      const Snap preo = snap(o);
      const bool mv = op.k == MOVE_ASSIGN;
      const bool entj0 = mo.ent;
      if (mv) e.cap_may_shrink = true;
      vf::L().reset_counters();
      arm(pre, 0, (long)mo.v.size());
      win([&] { if (mv) VV = std::move(o); else VV = static_cast<const V &>(o); });
      disarm();
      if (faulted()) break;
      if (W().exc) vf::fail("C01", "%s threw", nm);
      m.v = mo.v;
      if (mv) {
        mo.v.clear();
        if (!o.empty()) vf::fail("C01", "moved-from vector is not empty (size %ld)", (long)o.size());
        if (heap_backed(preo)) {
          if (VV.data() != preo.data) vf::fail("C07", "move assignment from a heap-backed vector did not hand over the buffer");
          vf::LedgerT &l = vf::L();
          long others = l.elem_ops() - l.n_dtor;
          if (others != 0 || l.n_dtor != pre.size * vf::ObjsPer<T>::value)
            vf::fail("C07", "move assignment from a heap-backed vector performed element operations (%ld non-destructor, %ld destructor for %ld old elements)", others, l.n_dtor, pre.size);
        }
        if (!entj0) m.ent = false;
        mo.ent = true;
        chk_noalloc(kFixed || (kSmall && ent0 && entj0), nm);
        Eff eo;
        eo.cap_may_shrink = true;
        post(w, j, preo, eo, nm);
      } else {
        if ((int)m.v.size() > N) m.ent = false;
        chk_noalloc(kFixed || (kSmall && ent0 && m.ent), nm);
      }
      post(w, i, pre, e, nm);
    } break;
    case SWAP_MEMBER:
    case SWAP_FREE: {
      const int j = op.j;
      V &o = w.slot[j].v();
      MS &mo = w.m[j];
      const Snap preo = snap(o);
      e.cap_may_shrink = true;
      vf::L().reset_counters();
      win([&] { if (op.k == SWAP_MEMBER) VV.swap(o); else { using std::swap; swap(VV, o); } });
      if (faulted()) break;
      if (W().exc) vf::fail("C01", "swap threw");
      std::swap(m.v, mo.v);
      const bool both = m.ent && mo.ent;
      if (heap_backed(pre) && heap_backed(preo)) {
        if (VV.data() != preo.data || o.data() != pre.data) vf::fail("C07", "swap of two heap-backed vectors did not exchange the buffers");
        if (vf::L().elem_ops() != 0) vf::fail("C07", "swap of two heap-backed vectors performed %ld element operations", vf::L().elem_ops());
      }
      m.ent = mo.ent = both;
      chk_noalloc(kFixed || (kSmall && both), nm);
      Eff eo;
      eo.cap_may_shrink = true;
      post(w, j, preo, eo, nm);
      post(w, i, pre, e, nm);
    } break;
    case COPY_CONSTRUCT:
    case MOVE_CONSTRUCT: {
      const int j = op.j;
      V &o = w.slot[j].v();
      MS &mo = w.m[j];
      const Snap preo = snap(o);
      const bool mv = op.k == MOVE_CONSTRUCT;
      const bool entj0 = mo.ent;
      replace(i, [&](void *where) {
        vf::L().reset_counters();
        if (mv) ::new (where) V(std::move(o)); else ::new (where) V(static_cast<const V &>(o));
      });
      vp = &S.v();
      if (faulted()) break;
      if (W().exc) vf::fail("C01", "%s threw", nm);
      m.v = mo.v;
      if (mv) {
        mo.v.clear();
        if (!o.empty()) vf::fail("C01", "moved-from vector is not empty (size %ld)", (long)o.size());
        if (heap_backed(preo)) {
          if (VV.data() != preo.data) vf::fail("C07", "move construction from a heap-backed vector did not hand over the buffer");
          if (vf::L().elem_ops() != 0) vf::fail("C07", "move construction from a heap-backed vector performed %ld element operations", vf::L().elem_ops());
        }
        m.ent = entj0;
        mo.ent = true;
        chk_noalloc(kFixed || (kSmall && entj0), nm);
        Eff eo;
        eo.cap_may_shrink = true;
        post(w, j, preo, eo, nm);
      } else {
        m.ent = (int)m.v.size() <= N;
        chk_noalloc(kFixed || (kSmall && m.ent), nm);
      }
      e.fresh_object = true;
      post(w, i, pre, e, nm);
    } break;
    // ---- operand menu: temporaries built by fixed recipes -----------------------------------------------------------
    case COPY_ASSIGN_T:
    case MOVE_ASSIGN_T:
    case SWAP_T:
    case MOVE_CTOR_T:
    case COPY_CTOR_T: {
      const int r = op.a;
      std::optional<V> topt;
      std::vector<int> tv;
      build_recipe(r, topt, tv, base);
      if (!topt) break;
      V &t = *topt;
      const Snap pret = snap(t);
      const bool tent = recipe_entitled(r);
      vf::L().reset_counters();
      if (op.k == COPY_ASSIGN_T) {
        arm(pre, 0, (long)tv.size());
        win([&] { VV = static_cast<const V &>(t); });
        disarm();
        if (faulted()) break;
        if (W().exc) vf::fail("C01", "%s threw", nm);
        m.v = tv;
        if ((int)m.v.size() > N) m.ent = false;
        if (read_vals(t) != tv) vf::fail("C01", "copy assignment modified its source");
        chk_noalloc(kFixed || (kSmall && ent0 && m.ent), nm);
      } else if (op.k == MOVE_ASSIGN_T) {
        e.cap_may_shrink = true;
        win([&] { VV = std::move(t); });
        if (faulted()) break;
        if (W().exc) vf::fail("C01", "%s threw", nm);
        m.v = tv;
        if (!t.empty()) vf::fail("C01", "moved-from vector is not empty (size %ld)", (long)t.size());
        if (heap_backed(pret)) {
          if (VV.data() != pret.data) vf::fail("C07", "move assignment from a heap-backed vector did not hand over the buffer");
          vf::LedgerT &l = vf::L();
          long others = l.elem_ops() - l.n_dtor;
          if (others != 0 || l.n_dtor != pre.size * vf::ObjsPer<T>::value)
            vf::fail("C07", "move assignment from a heap-backed vector performed element operations (%ld non-destructor, %ld destructor)", others, l.n_dtor);
        }
        if (!tent) m.ent = false;
        chk_noalloc(kFixed || (kSmall && ent0 && tent), nm);
        // the moved-from temporary must be usable again
        if (!(kFixed && N < 1)) {
          int x = ++base;
          t.push_back(E::make(x));
          if (t.size() != 1 || E::val(t[0]) != x) vf::fail("C01", "moved-from vector is not usable (push_back gave size %ld)", (long)t.size());
          if (kSmall && (!is_inline(t) || (long)t.capacity() != N)) vf::fail("C05", "moved-from SmallVector is not back in its inline state");
        }
      } else if (op.k == SWAP_T) {
        e.cap_may_shrink = true;
        win([&] { VV.swap(t); });
        if (faulted()) break;
        if (W().exc) vf::fail("C01", "%s threw", nm);
        if (read_vals(t) != m.v) vf::fail("C01", "swap: the other operand did not receive our elements");
        if (heap_backed(pre) && heap_backed(pret)) {
          if (VV.data() != pret.data || t.data() != pre.data) vf::fail("C07", "swap of two heap-backed vectors did not exchange the buffers");
          if (vf::L().elem_ops() != 0) vf::fail("C07", "swap of two heap-backed vectors performed %ld element operations", vf::L().elem_ops());
        }
        m.v = tv;
        m.ent = m.ent && tent;
        chk_noalloc(kFixed || (kSmall && ent0 && tent), nm);
      } else {
        const bool mv = op.k == MOVE_CTOR_T;
        replace(i, [&](void *where) {
          vf::L().reset_counters();
          if (mv) ::new (where) V(std::move(t)); else ::new (where) V(static_cast<const V &>(t));
        });
        vp = &S.v();
        if (faulted()) break;
        if (W().exc) vf::fail("C01", "%s threw", nm);
        m.v = tv;
        if (mv) {
          if (!t.empty()) vf::fail("C01", "moved-from vector is not empty");
          if (heap_backed(pret)) {
            if (VV.data() != pret.data) vf::fail("C07", "move construction from a heap-backed vector did not hand over the buffer");
            if (vf::L().elem_ops() != 0) vf::fail("C07", "move construction from a heap-backed vector performed %ld element operations", vf::L().elem_ops());
          }
          m.ent = tent;
          chk_noalloc(kFixed || (kSmall && tent), nm);
        } else {
          m.ent = (int)tv.size() <= N;
          chk_noalloc(kFixed || (kSmall && m.ent), nm);
        }
        e.fresh_object = true;
      }
      post(w, i, pre, e, nm);
    } break;
    // ---- constructors (the slot is replaced by a freshly constructed object) ----------------------------------------
    case CTOR_COUNT:
    case CTOR_COUNT_V:
    case CTOR_RANGE:
    case CTOR_IL: {
      const int n = op.a;
      std::vector<int> vals;
      int x = 0;
      if (op.k == CTOR_COUNT) vals.assign(n, 0);
      else if (op.k == CTOR_COUNT_V) { x = ++base; vals.assign(n, x); }
      else { vals = fresh_vals(3); vals.resize(n); }
      T tv = E::make(x);
      T a = E::make(n > 0 ? vals[0] : 0), b = E::make(n > 1 ? vals[1] : 0), c = E::make(n > 2 ? vals[2] : 0);
      auto finish = [&] {
        vp = &S.v();
        if (faulted()) return;
        if (over(n)) {
          g_overlimit = true;
          if (!W().exc || W().exc_kind != 1) vf::fail("C08,C01", "%s: constructing %d > N elements %s", nm, n, W().exc ? "threw the wrong exception" : "did not throw");
          m.v.clear();
        } else {
          if (W().exc) vf::fail("C01", "%s: unexpected exception", nm);
          m.v = vals;
        }
        m.ent = (int)m.v.size() <= N;
        chk_noalloc(kFixed || (kSmall && m.ent), nm);
        e.fresh_object = true;
        post(w, i, pre, e, nm);
      };
      if (op.k == CTOR_RANGE) {
        with_range(op.b, vals, [&](auto f, auto l) {
          replace(i, [&](void *where) { ::new (where) V(f, l); });
          finish();
        });
      } else {
        replace(i, [&](void *where) {
          if (op.k == CTOR_COUNT) ::new (where) V((typename V::size_type)n);
          else if (op.k == CTOR_COUNT_V) ::new (where) V((typename V::size_type)n, tv);
          else if (n == 0) ::new (where) V(std::initializer_list<T>{});
          else if (n == 1) ::new (where) V({a});
          else if (n == 2) ::new (where) V({a, b});
          else ::new (where) V({a, b, c});
        });
        finish();
      }
    } break;
    case ERASE_VAL:
    case ERASE_IF_GT: {
#if __cplusplus >= 202002L
      const int s = op.a, x = m.v[s];
      long got = -1, want = 0;
      std::vector<int> after;
      for (int y : m.v) {
        bool rm = op.k == ERASE_VAL ? y == x : y > x;
        if (rm) ++want; else after.push_back(y);
      }
      int first = 0;
      while (first < sz && !(op.k == ERASE_VAL ? m.v[first] == x : m.v[first] > x)) ++first;
      T key = E::make(x);
      exec((long)after.size(), first, [&] {
        if (op.k == ERASE_VAL) got = (long)erase(VV, key);
        else got = (long)erase_if(VV, [&](const T &el) { return E::val(el) > x; });
      }, [&] {
        m.v = after;
        if (got != want) vf::fail("C01", "%s returned %ld, expected %ld", nm, got, want);
      });
#endif
    } break;
    default:
      break;
  }
  if (faulted()) fault_epilogue(w, op, pre_model, sz);
  g_cur_fault = 0;
#undef VV
}

}  // namespace ops
