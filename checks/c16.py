"""C16 -- behaviour independent of C++ standard, pedantic mode, assertions and optimisation level.

src/c16/replayer.cpp (C++11, public API only) enumerates EVERY operation sequence up to a depth over a fixed alphabet for
six vector and three FlatSet instantiations (and two SmallSets from C++17).  It is built in every configuration of the
tier; all builds that offer the same feature set (base / +extras / +C++17 / +both) must print byte-identical transcript
digests (one digest per (container, first operation) bucket).  A differing bucket is dumped sequence by sequence in both
builds and the first differing sequence becomes the replay artefact.  Build probes check ABSENCE: what a configuration
does not offer must fail to compile there (and compile elsewhere)."""
import itertools
import os

import vlib

SRC = "c16/replayer.cpp"


def cfg_name(std, extras, ndebug, opt, cxx="g++"):
    return "%s-%s-%s-%s-%s" % (cxx.replace("+", "x"), std, "extras" if extras else "pedantic", "ndebug" if ndebug else "assert", opt)


def cfg_flags(std, extras, ndebug, opt):
    f = ["-std=" + std, "-" + opt, "-w"]
    if extras:
        f.append("-DAMC_NONSTD_FEATURES")
    if ndebug:
        f.append("-DNDEBUG")
    return f


def configs(q):
    if q:
        L = [("c++17", True, True, "O2"), ("c++11", True, True, "O2"), ("c++14", False, False, "O0"), ("c++17", False, False, "O2"),
             ("c++20", True, False, "O0"), ("c++11", True, False, "O0")]
        return [(s, e, n, o, "g++") for s, e, n, o in L]
    L = [(s, e, n, o, "g++") for s, e, n, o in itertools.product(("c++11", "c++14", "c++17", "c++20"), (True, False), (True, False), ("O0", "O2"))]
    L += [("c++11", True, True, "O2", "clang++"), ("c++17", True, False, "O1", "clang++"), ("c++20", False, True, "O2", "clang++"), ("c++14", True, False, "O3", "g++")]
    return L


PROBES = [
    # (name, code, predicate(std, extras) -> must compile?)
    ("smallset.hpp", "#include <amc/smallset.hpp>\nint main(){ amc::SmallSet<int,2> s; s.insert(1); return (int)s.size(); }", lambda std, ex: std in ("c++17", "c++20")),
    ("vector.append", "#include <amc/vector.hpp>\nint main(){ amc::vector<int> v; v.append(2); return (int)v.size(); }", lambda std, ex: ex),
    ("vector.pop_back_val", "#include <amc/vector.hpp>\nint main(){ amc::vector<int> v; v.push_back(1); return v.pop_back_val(); }", lambda std, ex: ex),
    ("vector.swap2", "#include <amc/vector.hpp>\n#include <amc/smallvector.hpp>\nint main(){ amc::vector<int> v; amc::SmallVector<int,2> w; v.swap2(w); return 0; }", lambda std, ex: ex),
    ("fixedcapacityvector.append", "#include <amc/fixedcapacityvector.hpp>\nint main(){ amc::FixedCapacityVector<int,3> v; v.append(2, 1); return (int)v.size(); }", lambda std, ex: ex),
    ("flatset.data", "#include <amc/flatset.hpp>\nint main(){ amc::FlatSet<int> s; return s.data() != 0; }", lambda std, ex: ex),
    ("flatset.index", "#include <amc/flatset.hpp>\nint main(){ amc::FlatSet<int> s{1}; return s[0] + s.at(0); }", lambda std, ex: ex),
    ("flatset.capacity_reserve_shrink", "#include <amc/flatset.hpp>\nint main(){ amc::FlatSet<int> s; s.reserve(3); s.shrink_to_fit(); return (int)s.capacity(); }", lambda std, ex: ex),
    ("flatset.steal_vector", "#include <amc/flatset.hpp>\nint main(){ amc::FlatSet<int> s; auto v = s.steal_vector(); return (int)v.size(); }", lambda std, ex: ex),
    ("flatset.from_vector", "#include <amc/flatset.hpp>\nint main(){ amc::vector<int> v; amc::FlatSet<int> s(std::move(v)); s = amc::vector<int>(); return (int)s.size(); }", lambda std, ex: ex),
    ("flatset.node_handle", "#include <amc/flatset.hpp>\nint main(){ amc::FlatSet<int> s{1}; auto n = s.extract(1); return n.empty(); }", lambda std, ex: std in ("c++17", "c++20")),
    ("vector.standard_api", "#include <amc/vector.hpp>\nint main(){ amc::vector<int> v{1,2}; v.insert(v.begin(), 3); v.erase(v.begin()); v.resize(4); return (int)v.size(); }", lambda std, ex: True),
    ("flatset.standard_api", "#include <amc/flatset.hpp>\nint main(){ amc::FlatSet<int> s{3,1}; s.insert(2); s.erase(1); return (int)s.count(2) + (s.lower_bound(2) != s.end()); }", lambda std, ex: True),
]


def feature_sets(std, extras):
    fs = ["b"]
    if extras:
        fs.append("be")
    if std in ("c++17", "c++20"):
        fs.append("b17")
        if extras:
            fs.append("be17")
    return fs


def run(ctx):
    q = ctx.tier == "quick"
    depth = 3 if q else 4
    cfgs = configs(q)

    def build(c):
        std, ex, nd, opt, cxx = c
        return vlib.build(SRC, cfg_flags(std, ex, nd, opt), "c16-" + cfg_name(std, ex, nd, opt, cxx), cxx=cxx)

    bins = vlib.pmap(build, cfgs)
    jobs = []
    for c, b in zip(cfgs, bins):
        for fs in feature_sets(c[0], c[1]):
            d = depth if (fs in ("b", "be") or not q) else depth
            jobs.append((c, b, fs, d))

    def runjob(j):
        c, b, fs, d = j
        rc, out, err = vlib.run([b, "--features", fs, "--depth", str(d)], timeout=max(120, ctx.time_left() - 60))
        return j, rc, out, err

    results = vlib.pmap(runjob, jobs)
    groups = {}
    for (c, b, fs, d), rc, out, err in results:
        if rc != 0 or "TOTAL|" not in out:
            ctx.violation("c16|%s|%s|crash" % (cfg_name(*c), fs), {"config": cfg_name(*c), "features": fs, "stderr": err[-3000:], "cmd": "%s --features %s --depth %d" % (b, fs, d)},
                          "replayer died or an assertion fired in configuration %s: %s" % (cfg_name(*c), (err.strip().split("\n") or [""])[-1][:300]))
            continue
        groups.setdefault(fs, []).append((c, b, d, out))
    total_seq = 0
    distinct_seq = 0
    samples = []
    disagreements = 0
    for fs, members in sorted(groups.items()):
        ref = members[0]
        reflines = ref[3].strip().split("\n")
        nseq = int(reflines[-1].split("|")[1])
        distinct_seq += nseq if len(members) > 1 else 0
        total_seq += nseq * len(members)
        samples.append({"feature_set": fs, "builds": [cfg_name(*m[0]) for m in members], "sequences_each": nseq, "first_bucket": reflines[0]})
        for m in members[1:]:
            if m[3] == ref[3]:
                continue
            disagreements += 1
            lines = m[3].strip().split("\n")
            diff = [(a, b) for a, b in zip(reflines, lines) if a != b]
            a, b = diff[0] if diff else (reflines[-1], lines[-1])
            cont, first = a.split("|")[0], a.split("|")[1]
            # dump the differing bucket in both builds and find the first differing sequence
            _, o1, _ = vlib.run([ref[1], "--features", fs, "--depth", str(ref[2]), "--dump", cont, first], timeout=600)
            _, o2, _ = vlib.run([m[1], "--features", fs, "--depth", str(m[2]), "--dump", cont, first], timeout=600)
            d1, d2 = o1.strip().split("\n"), o2.strip().split("\n")
            seqdiff = next(((x, y) for x, y in zip(d1, d2) if x != y), (d1[-1] if d1 else "", d2[-1] if d2 else ""))
            seqname = seqdiff[0].split("|")[1] if "|" in seqdiff[0] else first
            sig = "c16|%s|%s|%s vs %s" % (cont, seqname.split(" ")[-1], cfg_name(*ref[0]), cfg_name(*m[0]))
            ctx.violation(sig, {"container": cont, "sequence": seqname, "features": fs, "config_a": cfg_name(*ref[0]), "config_b": cfg_name(*m[0]),
                                "transcript_a": seqdiff[0][:1500], "transcript_b": seqdiff[1][:1500],
                                "cmd": "%s --features %s --depth %d --dump %s %s | head -50; %s --features %s --depth %d --dump %s %s | head -50" % (ref[1], fs, ref[2], cont, first, m[1], fs, m[2], cont, first)},
                          "sequence '%s' on %s gives different transcripts in %s and %s" % (seqname, cont, cfg_name(*ref[0]), cfg_name(*m[0])))
    # ---- absence probes ---------------------------------------------------------------------------------------------------
    probe_cfgs = sorted(set((c[0], c[1]) for c in cfgs))
    pjobs = [(p, pc) for p in PROBES for pc in probe_cfgs]

    def probe(j):
        (pname, code, pred), (std, ex) = j
        ok, out = vlib.try_compile(code, ["-std=" + std, "-w"] + (["-DAMC_NONSTD_FEATURES"] if ex else []))
        return j, ok, out

    nprobe = 0
    for ((pname, code, pred), (std, ex)), ok, out in vlib.pmap(probe, pjobs):
        nprobe += 1
        want = pred(std, ex)
        if ok != want:
            ctx.violation("c16|probe|%s|%s|%s" % (pname, std, "extras" if ex else "pedantic"),
                          {"probe": pname, "std": std, "extras": ex, "expected_compiles": want, "compiles": ok, "code": code, "compiler_output": out[-1500:],
                           "cmd": "printf '%%s' %r | g++ -fsyntax-only -x c++ - -std=%s -w %s -I /repo/include" % (code, std, "-DAMC_NONSTD_FEATURES" if ex else "")},
                          "%s %s with -std=%s %s" % (pname, "must compile but does not" if want else "compiles although this configuration should not offer it", std, "extras" if ex else "pedantic"))
    cov = {
        "evaluations": total_seq + nprobe, "distinct_nontrivial": distinct_seq,
        "rule": "one evaluation = one operation sequence (every sequence of length <= depth over the alphabet, on a fresh container) executed in one build, or one build probe; distinct non-trivial = distinct sequences whose transcript was compared across at least two build configurations",
        "samples": samples, "builds": [cfg_name(*c) for c in cfgs], "depth": depth, "feature_sets": {k: len(v) for k, v in groups.items()},
        "disagreeing_build_pairs": disagreements, "build_probes": nprobe, "programs": distinct_seq, "disagreements_checked": disagreements, "exhaustive": True,
    }
    return ctx.finish("exploration", cov, ["transcripts contain values, sizes, capacities, returned positions/booleans/counts, exception kinds, live-object balance; element-operation counts are excluded (copy elision differs legitimately between language levels)",
                                            "scripts stay inside the library's contract, so no assertion may fire in the assertion-enabled builds", "g++ 12 (clang++ 14 in the thorough tier), libstdc++"])
