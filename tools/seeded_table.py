#!/usr/bin/env python3
"""Regenerate the table of DESIGN.md section 9 from seeded/*/meta.json (between the SEEDED-TABLE markers)."""
import glob, json, os, re
rows = []
for d in sorted(glob.glob("/verif/seeded/*")):
    m = json.load(open(os.path.join(d, "meta.json")))
    s = (m.get("summary") or "").replace("|", "/").replace("\n", " ")
    n = (m.get("needs_to_manifest") or "")
    if isinstance(n, list):
        n = "; ".join(n)
    n = n.replace("|", "/").replace("\n", " ")
    rows.append("| %s | %s | %s | %s | %s |" % (os.path.basename(d), m.get("breaks_property"), s[:260] + ("..." if len(s) > 260 else ""), n[:200] + ("..." if len(n) > 200 else ""),
                                              ", ".join(m.get("caught_by", [])) + ((" (missed by " + ", ".join(m["missed_by"]) + ")") if m.get("missed_by") else "")))
table = "| id | breaks | change | needs to manifest | caught by (quick tier) |\n|---|---|---|---|---|\n" + "\n".join(rows)
p = "/verif/DESIGN.md"
s = open(p).read()
if "SEEDED_TABLE_PLACEHOLDER" in s:
    s = s.replace("SEEDED_TABLE_PLACEHOLDER", "<!-- SEEDED-TABLE-BEGIN -->\n" + table + "\n<!-- SEEDED-TABLE-END -->")
else:
    s = re.sub(r"<!-- SEEDED-TABLE-BEGIN -->.*<!-- SEEDED-TABLE-END -->", lambda _: "<!-- SEEDED-TABLE-BEGIN -->\n" + table + "\n<!-- SEEDED-TABLE-END -->", s, flags=re.S)
open(p, "w").write(s)
print(len(rows), "rows")
