// E2 -- explicit-state breadth-first exploration of one FlatSet / SmallSet instantiation against std::set.
// Same scheme as explore_vec.cpp: state = pool of real sets identified by a canonical key, transition = one public
// operation replayed on fresh objects, oracle = std::set built with the same comparator object + ledgers + ASan.
//
//   explore_set --explore --K 1 [--reloc 0|1|2] [--deadline s] [--crumb file] [--seqlen n] [--few-ranges] [--no-temps]
//   explore_set --replay "<op> <op> ..."
#include <sanitizer/asan_interface.h>
#include <fcntl.h>
#include <sys/mman.h>
#include <unistd.h>

#include <csignal>
#include <chrono>
#include <map>
#include <unordered_map>

#include "set_apply.hpp"

using namespace sops;

static char *g_crumb = nullptr;
static const size_t CRUMB_SZ = 8192;
static int g_reloc = 0;

static double now_s() {
  using namespace std::chrono;
  return duration<double>(steady_clock::now().time_since_epoch()).count();
}
static void crumb(const std::vector<Op> &h, const Op *op) {
  if (!g_crumb) return;
  std::string s = hist_str(h);
  if (op) {
    if (!s.empty()) s += ' ';
    s += op_str(*op);
  }
  s += "\n";
  if (s.size() >= CRUMB_SZ) s.resize(CRUMB_SZ - 1);
  std::memcpy(g_crumb, s.c_str(), s.size() + 1);
}

static void pool_init(World &w) {
  for (int i = 0; i < w.K; ++i) {
    Slot &s = w.slot[i];
    s.cur = 0;
    ASAN_UNPOISON_MEMORY_REGION(s.buf, sizeof s.buf);
    ::new (s.raw()) S(make_cmp());
    s.alive = true;
    w.m[i].emplace(make_mcmp());
    w.big[i] = false;
  }
}
static void pool_destroy(World &w) {
  for (int i = 0; i < w.K; ++i)
    if (w.slot[i].alive) {
      w.slot[i].s().~S();
      w.slot[i].alive = false;
    }
}
static void relocate_all(World &w) {
  if constexpr (amc::is_trivially_relocatable<S>::value) {
    for (int i = 0; i < w.K; ++i) {
      Slot &s = w.slot[i];
      ASAN_UNPOISON_MEMORY_REGION(s.other(), sizeof(S));
      std::memcpy(s.other(), s.raw(), sizeof(S));
      std::memset(s.raw(), 0xEE, sizeof(S));
      ASAN_POISON_MEMORY_REGION(s.raw(), sizeof(S));  // the source is abandoned: any later access to it is a defect
      s.cur ^= 1;
    }
  }
}

template <class C>
static int cmp_state(const C &c) {
  if constexpr (kStateful) return c.m;
  else return 0;
}

static std::string key_of(World &w) {
  std::vector<std::string> parts;
  for (int i = 0; i < w.K; ++i) {
    S &s = w.slot[i].s();
    char buf[64];
    std::snprintf(buf, sizeof buf, "L%dc%ldm%db%d[", LargeProbe<S>::get(s), CapProbe<S>::get(s), cmp_state(s.key_comp()), (int)w.big[i]);
    std::string k = buf;
    for (auto it = s.begin(); it != s.end(); ++it) k += (char)('a' + (E::val(*it) & 31));
    k += ']';
    parts.push_back(k);
  }
  std::sort(parts.begin(), parts.end());
  std::string k;
  for (auto &p : parts) k += p;
  return k;
}

/// Destructive probe appended to the key of the state a run ends in (the pool is destroyed right afterwards): state that
/// is hidden behind the public API but decides later behaviour - e.g. stale inline elements of a SmallSet in its large
/// state - becomes visible once the container is drained.  For a correct implementation the probe is a function of the
/// visible key, so it merges nothing less; for a broken one it keeps apart states that only look alike.
static std::string probe_of(World &w) {
  std::vector<std::string> parts;
  for (int i = 0; i < w.K; ++i) {
    S &s = w.slot[i].s();
    std::string base;
    {
      char buf[64];
      std::snprintf(buf, sizeof buf, "L%dc%ldm%db%d[", LargeProbe<S>::get(s), CapProbe<S>::get(s), cmp_state(s.key_comp()), (int)w.big[i]);
      base = buf;
      for (auto it = s.begin(); it != s.end(); ++it) base += (char)('a' + (E::val(*it) & 31));
      base += ']';
    }
    s.clear();
    char buf[64];
    std::snprintf(buf, sizeof buf, "~n%ldL%dc%ld[", (long)s.size(), LargeProbe<S>::get(s), CapProbe<S>::get(s));
    std::string pr = buf;
    long n = 0;
    for (auto it = s.begin(); it != s.end() && n < 40; ++it, ++n) pr += (char)('a' + (E::val(*it) & 31));
    pr += ";";
    parts.push_back(base + pr);
  }
  std::sort(parts.begin(), parts.end());
  std::string k;
  for (auto &q : parts) k += q;
  return k;
}
/// the key without the probe parts ("~...;")
static std::string strip_probe(const std::string &k) {
  std::string r;
  bool skip = false;
  for (char c : k) {
    if (c == '~') skip = true;
    if (!skip) r += c;
    if (c == ';') skip = false;
  }
  return r;
}

static uint64_t g_digest;
static void dig(long x) { g_digest = (g_digest ^ (uint64_t)x) * 1099511628211ULL; }

template <class SetT, class M, class KeyT>
static void lookups(const SetT &s, const M &m, const KeyT &key, int mkey_for_model, bool exact_key_in_model, int i) {
  // find / contains / count
  auto it = s.find(key);
  auto mit = exact_key_in_model ? m.find(mkey_for_model) : m.end();
  const bool found = !(it == s.end());
  dig(found);
  if (found != (mit != m.end())) vf::fail(PTI(), "set %d: find(%d) %s, std::set %s", i, mkey_for_model, found ? "finds" : "gives end()", mit != m.end() ? "finds" : "gives end()");
  else if (found && E::val(*it) != *mit) vf::fail(PTI(), "set %d: find(%d) designates %d, std::set designates %d", i, mkey_for_model, E::val(*it), *mit);
  if (s.contains(key) != (mit != m.end())) vf::fail(PT(), "set %d: contains(%d) wrong", i, mkey_for_model);
  if ((long)s.count(key) != (long)(mit != m.end())) vf::fail(PT(), "set %d: count(%d) wrong", i, mkey_for_model);
}

template <class SetT, class M, class KeyT, class MKeyT>
static void bounds(const SetT &s, const M &m, const KeyT &key, const MKeyT &mkey, int label, int i) {
  long lb = s.lower_bound(key) - s.begin(), ub = s.upper_bound(key) - s.begin();
  long mlb = std::distance(m.begin(), m.lower_bound(mkey)), mub = std::distance(m.begin(), m.upper_bound(mkey));
  dig(lb * 16 + ub);
  if (lb != mlb) vf::fail("C03", "set %d: lower_bound(%d) at %ld, std::set at %ld", i, label, lb, mlb);
  if (ub != mub) vf::fail("C03", "set %d: upper_bound(%d) at %ld, std::set at %ld", i, label, ub, mub);
}

/// heterogeneous lookups with a key equivalent to a run of (up to two) elements (transparent configuration only)
template <class SetT, class M>
static void bucket_lookups(const SetT &s, const M &m, int key, int i) {
  Bucket bk{key / 2};
  const long mcount = (long)m.count(bk);
  auto fit = s.find(bk);
  if ((fit == s.end()) != (mcount == 0)) vf::fail(PTI(), "set %d: find(bucket %d) %s, std::set finds %ld equivalent elements", i, key / 2, fit == s.end() ? "gives end()" : "finds an element", mcount);
  else if (!(fit == s.end()) && E::val(*fit) / 2 != key / 2) vf::fail(PTI(), "set %d: find(bucket %d) designates %d", i, key / 2, E::val(*fit));
  if (s.contains(bk) != (mcount != 0)) vf::fail(PT(), "set %d: contains(bucket %d) wrong", i, key / 2);
  if ((long)s.count(bk) != mcount) vf::fail(PT(), "set %d: count(bucket %d) returns %ld, std::set returns %ld", i, key / 2, (long)s.count(bk), mcount);
  if constexpr (kFlat) bounds(s, m, bk, bk, 100 + key / 2, i);
}

/// address reached through operator-> (raw pointers are their own arrow)
template <class It>
static auto arrow_of(const It &it) {
  if constexpr (std::is_pointer<It>::value) return it;
  else return it.operator->();
}

template <class SetT = S>
static void observe(World &w) {
  long live_expected = 0;
  for (int i = 0; i < w.K; ++i) {
    const SetT &s = w.slot[i].s();
    const Model &m = *w.m[i];
    dig((long)s.size());
    live_expected += (long)s.size() * vf::ObjsPer<T>::value;
    if ((long)s.size() != (long)m.size()) {
      vf::fail(PT(), "set %d: size %ld, std::set has %zu", i, (long)s.size(), m.size());
      continue;
    }
    if (s.empty() != m.empty()) vf::fail(PT(), "set %d: empty() disagrees", i);
    std::vector<int> fwd, bwd;
    long steps = 0;
    bool runaway = false;
    for (auto it = s.begin(); it != s.end(); ++it) {
      if (++steps > (long)m.size() + 2) {
        runaway = true;
        break;
      }
      const char *why = nullptr;
      if (!E::sane(*it, &why)) vf::fail("C02", "set %d: %s", i, why);
      fwd.push_back(E::val(*it));
      dig(E::val(*it));
      if (arrow_of(it) != std::addressof(*it)) vf::fail(PTI(), "set %d: iterator operator-> does not designate the element operator* returns", i);
    }
    if (runaway) {
      vf::fail(PTI(), "set %d: begin()..end() walk does not terminate", i);
      continue;
    }
    steps = 0;
    for (auto it = s.rbegin(); it != s.rend(); ++it) {
      if (++steps > (long)m.size() + 2) {
        runaway = true;
        break;
      }
      bwd.push_back(E::val(*it));
      if (arrow_of(it) != std::addressof(*it)) vf::fail(PTI(), "set %d: reverse iterator operator-> does not designate the element operator* returns", i);
    }
    if (runaway) {
      vf::fail(PTI(), "set %d: rbegin()..rend() walk does not terminate", i);
      continue;
    }
    std::vector<int> mseq(m.begin(), m.end());
    if (kFlat) {
      if (fwd != mseq) {
        vf::fail("C03", "FlatSet %d iterates a different sequence than std::set (sizes %zu/%zu)", i, fwd.size(), mseq.size());
        continue;
      }
    } else {
      std::vector<int> a = fwd, b = mseq;
      std::sort(a.begin(), a.end());
      std::sort(b.begin(), b.end());
      if (a != b) {
        vf::fail("C04", "SmallSet %d holds different elements than std::set", i);
        continue;
      }
    }
    std::reverse(bwd.begin(), bwd.end());
    if (bwd != fwd) vf::fail(PTI(), "set %d: reverse iteration does not visit the same elements in reverse order", i);
    {
      // the other spellings of a step: it++ / it-- yield the OLD position, --it walks back from end()
      const size_t nfw = fwd.size();
      std::vector<int> post, back, rpost;
      auto it = s.begin();
      for (size_t k = 0; k < nfw; ++k) {
        auto before = it;
        auto old = it++;
        if (!(old == before) || (old == it)) vf::fail(PTI(), "set %d: it++ does not return the position before the step", i);
        else post.push_back(E::val(*old));
      }
      if (!(it == s.end())) vf::fail(PTI(), "set %d: %zu postfix increments from begin() do not reach end()", i, nfw);
      else if (post != fwd) vf::fail(PTI(), "set %d: *it++ walk visits a different sequence than ++it", i);
      auto jt = s.end();
      for (size_t k = 0; k < nfw; ++k) {
        if (k % 2 == 0) --jt;
        else {
          auto before = jt;
          auto old = jt--;
          if (!(old == before) || (old == jt)) vf::fail(PTI(), "set %d: it-- does not return the position before the step", i);
        }
        back.push_back(E::val(*jt));
      }
      std::reverse(back.begin(), back.end());
      if (!(jt == s.begin())) vf::fail(PTI(), "set %d: %zu decrements from end() do not reach begin()", i, nfw);
      else if (back != fwd) vf::fail(PTI(), "set %d: walking back from end() with --it / it-- visits a different sequence", i);
      auto rt = s.rbegin();
      for (size_t k = 0; k < nfw; ++k) rpost.push_back(E::val(*rt++));
      std::reverse(rpost.begin(), rpost.end());
      if (!(rt == s.rend())) vf::fail(PTI(), "set %d: %zu postfix increments from rbegin() do not reach rend()", i, nfw);
      else if (rpost != fwd) vf::fail(PTI(), "set %d: *rit++ walk visits a different sequence", i);
    }
    if (cmp_state(s.key_comp()) != cmp_state(m.key_comp()))
      vf::fail(PT(), "set %d: comparator state %d, expected %d (comparator must travel with the set)", i, cmp_state(s.key_comp()), cmp_state(m.key_comp()));
    // lookups for every key of the domain and one absent key below / above
    for (int key = -1; key <= KEYS; ++key) {
      T t = mk(key);
      lookups(s, m, static_cast<const T &>(t), key, true, i);
      if constexpr (kFlat) {
        bounds(s, m, static_cast<const T &>(t), key, key, i);
        auto er = s.equal_range(static_cast<const T &>(t));
        auto mer = m.equal_range(key);
        std::vector<int> run, mrun(mer.first, mer.second);
        for (auto it = er.first; it != er.second; ++it) run.push_back(E::val(*it));
        if (run != mrun) vf::fail("C03", "set %d: equal_range(%d) delimits a different run", i, key);
      }
      if constexpr (kTransparent) {
        if (key >= 0 && key % 2 == 0) bucket_lookups(s, m, key, i);
        double d = key, dh = key + 0.5;
        lookups(s, m, d, key, true, i);
        lookups(s, m, dh, key, false, i);
        if constexpr (kFlat) {
          bounds(s, m, d, d, key, i);
          bounds(s, m, dh, dh, key, i);
        }
      }
    }
#if CFG_KIND == 0 && defined(AMC_NONSTD_FEATURES)
    if (!s.empty()) {
      if (E::val(s.front()) != mseq.front() || E::val(s.back()) != mseq.back()) vf::fail("C03", "set %d: front()/back() wrong", i);
      for (size_t q = 0; q < mseq.size(); ++q)
        if (E::val(s[(typename S::size_type)q]) != mseq[q] || E::val(s.at((typename S::size_type)q)) != mseq[q] || E::val(s.data()[q]) != mseq[q])
          vf::fail("C03", "set %d: operator[]/at/data wrong at %zu", i, q);
    }
    if (s.capacity() < s.size()) vf::fail("C03", "set %d: capacity < size", i);
    for (size_t q = mseq.size(); q < mseq.size() + 2; ++q) {
      bool threw = false;
      try {
        (void)s.at((typename S::size_type)q);
      } catch (const std::out_of_range &) {
        threw = true;
      }
      if (!threw) vf::fail("C03", "set %d: at(%zu) with size %zu did not throw out_of_range", i, q, mseq.size());
    }
#endif
    // c-prefixed iterators and the comparator accessors
    if (!(s.cbegin() == s.begin()) || !(s.cend() == s.end()) || !(s.crbegin() == s.rbegin()) || !(s.crend() == s.rend()))
      vf::fail(PTI(), "set %d: c-prefixed iterators disagree with begin / end / rbegin / rend", i);
    if (fwd.size() >= 2) {
      auto a0 = s.begin();
      auto a1 = a0;
      ++a1;
      if (kFlat && (!s.value_comp()(*a0, *a1) || s.value_comp()(*a1, *a0) || !s.key_comp()(*a0, *a1)))
        vf::fail("C03", "set %d: value_comp() / key_comp() do not order two consecutive elements", i);
    }
    for (int j = 0; j < w.K; ++j) {
      const SetT &o = w.slot[j].s();
      const Model &mo = *w.m[j];
      if ((long)o.size() != (long)mo.size()) continue;
      int bits = (s == o) | (s != o) << 1 | (s < o) << 2 | (s <= o) << 3 | (s > o) << 4 | (s >= o) << 5;
      int want = (m == mo) | (m != mo) << 1 | (m < mo) << 2 | (m <= mo) << 3 | (m > mo) << 4 | (m >= mo) << 5;
      dig(bits);
      if (bits != want) vf::fail(PT(), "comparison operators between sets %d and %d give %d, std::set gives %d", i, j, bits, want);
    }
  }
  if (E::tracked && vf::L().live() != live_expected)
    vf::fail("C02", "%d element objects alive, sets hold %ld (leak or lost element)", vf::L().live(), live_expected);
  if (kStateful && g_default_cmp_calls != 0)
    vf::fail(PT(), "%ld comparisons were made through a default-constructed comparator instead of the set's own comparator object", g_default_cmp_calls);
}


// watchdog: one execution (history + operation) that does not finish within 30 s is a hang (a corrupted container can
// send an algorithm into an endless loop); it is reported like a crash, with the breadcrumb naming the execution
static void on_alarm(int) {
  static const char msg[] = "\nSUMMARY: watchdog: execution did not terminate within 30 s (hang)\n";
  ssize_t r = write(2, msg, sizeof msg - 1);
  (void)r;
  _exit(97);
}

struct RunResult {
  std::string key_before, key_after;
  std::string key_full;  // key of the final state of the run including the destructive probe
  uint64_t digest = 0;
  int nfail = 0;
  long events = 0;
};
static World g_w;
static bool g_fault_seen = false;

static RunResult run_once(const std::vector<Op> &hist, const Op *op, int K, std::vector<Op> *enabled, const Opts &o) {
  RunResult r;
  alarm(30);
  World &w = g_w;
  w.K = K;
  vf::L().reset();
  vf::AL().reset();
  g_default_cmp_calls = 0;
  g_digest = 1469598103934665603ULL;
  g_final = false;
  pool_init(w);
  for (const Op &h : hist) {
    apply(w, h);
    if (g_reloc == 2) relocate_all(w);
  }
  vf::L().nfail = 0;  // failures of observational oracles on the prefix were reported when that transition was explored
  vf::L().fail_total = 0;
  r.key_before = key_of(w);
  if (enabled) enumerate(w, o, *enabled);
  if (op) {
    // C14: run every const observer (all lookups) BEFORE the relocation as well, so that anything a const member might
    // cache (a pointer to the last hit, an iterator...) is set when the bytes move
    if (g_reloc >= 1) observe<>(w);
    if (g_reloc >= 1) relocate_all(w);
    g_default_cmp_calls = 0;
    g_final = true;
    g_last_events = 0;
    apply(w, *op);
    g_final = false;
    g_fault_seen = op->f > 0 && vf::L().faults_thrown > 0;  // thrown; the callee may have swallowed it (std::vector::shrink_to_fit)
    r.events = g_last_events;
    observe<>(w);
    r.key_after = key_of(w);
  }
  {
    const int nf = vf::L().nfail;
    vf::L().quiet = true;  // the probe is not an oracle
    r.key_full = probe_of(w);
    vf::L().quiet = false;
    vf::L().nfail = nf;
    // live-object bookkeeping: clear() destroyed the elements the sets held
  }
  pool_destroy(w);
  for (int i = 0; i < w.K; ++i) w.m[i].reset();
  if (E::tracked && vf::L().live() != 0) vf::fail("C02", "%d element objects still alive after all sets were destroyed", vf::L().live());
  if (kLedgerAlloc && vf::AL().n != 0) vf::fail("C06", "%d blocks outstanding after all sets were destroyed", vf::AL().n);
  r.digest = g_digest;
  r.nfail = vf::L().nfail;
  alarm(0);
  return r;
}

static std::string jesc(const std::string &s) {
  std::string r;
  for (char c : s) {
    if (c == '"' || c == '\\') { r += '\\'; r += c; }
    else if ((unsigned char)c < 32) r += ' ';
    else r += c;
  }
  return r;
}

/// A failed oracle stops the expansion of the successor state when model and code may have diverged (contents,
/// lifetimes, crashes).  Failures of purely observational oracles (allocation counting, allocator protocol, capacity /
/// address rules) are recorded but the successor is still explored: their consequences for other properties stay visible.
static bool failure_is_fatal() {
  for (int f = 0; f < vf::L().nfail; ++f) {
    std::string t = vf::L().fails[f].tags;
    size_t a = 0;
    while (a <= t.size()) {
      size_t b = t.find(',', a);
      if (b == std::string::npos) b = t.size();
      std::string tag = t.substr(a, b - a);
      if (!(tag == "C05" || tag == "C06" || tag == "C07" || tag == "C18")) return true;
      a = b + 1;
    }
  }
  return vf::L().fail_total > vf::LedgerT::FAIL_CAP;
}

struct State {
  int parent;
  Op op;
  int depth;
  int faults;
};

int main(int argc, char **argv) {
  install_hooks();
  std::signal(SIGALRM, on_alarm);
  int K = 1;
  bool explore = false;
  std::string replay;
  double deadline = 1e18;
  long maxstates = 20000000;
  int merge_check = 0;  // self-check of the state abstraction: number of merge events whose futures are compared
  int fault_bound = 0;
  Opts o;
  for (int a = 1; a < argc; ++a) {
    std::string s = argv[a];
    auto nxt = [&] { return a + 1 < argc ? std::string(argv[++a]) : std::string(); };
    if (s == "--explore") explore = true;
    else if (s == "--replay") replay = nxt();
    else if (s == "--K") K = std::atoi(nxt().c_str());
    else if (s == "--L") nxt();
    else if (s == "--reloc") g_reloc = std::atoi(nxt().c_str());
    else if (s == "--deadline") deadline = now_s() + std::atof(nxt().c_str());
    else if (s == "--maxstates") maxstates = std::atol(nxt().c_str());
    else if (s == "--seqlen") o.seq_len = std::atoi(nxt().c_str());
    else if (s == "--few-ranges") o.ranges_all = false;
    else if (s == "--no-temps") o.temps = false;
    else if (s == "--no-ctors") o.ctors = false;
    else if (s == "--hint-only") o.hint_only = true;
    else if (s == "--fault") fault_bound = std::atoi(nxt().c_str());
    else if (s == "--merge-check") merge_check = std::atoi(nxt().c_str());
    else if (s == "--crumb") {
      std::string p = nxt();
      int fd = open(p.c_str(), O_RDWR | O_CREAT | O_TRUNC, 0644);
      if (fd >= 0 && ftruncate(fd, CRUMB_SZ) == 0) {
        void *m = mmap(nullptr, CRUMB_SZ, PROT_READ | PROT_WRITE, MAP_SHARED, fd, 0);
        if (m != MAP_FAILED) g_crumb = static_cast<char *>(m);
      }
    }
  }
#ifndef AMC_NONSTD_FEATURES
  o.extras = false;
#endif
  if (K > MAXK) K = MAXK;
  const bool claims = amc::is_trivially_relocatable<S>::value;
  std::string static_fail;
  {
    // converse of C14: no claim when a part is not relocatable
    bool parts_ok = vf::expect_reloc<T>::value || (kFlat && CFG_VEC != 1 && CFG_VEC != 2);
    if (CFG_CMP == 5) parts_ok = false;                          // comparator with a pointer to itself
    if (kFlat && CFG_VEC == 3) parts_ok = false;                 // std::vector is not declared relocatable
    if (kSmallSet && CFG_BACK == 0) parts_ok = false;            // std::set is not relocatable
    if (kSmallSet && !vf::expect_reloc<T>::value) parts_ok = false;  // inline elements
    if (claims && !parts_ok) static_fail = "set claims trivially_relocatable although one of its parts is not relocatable";
  }
  auto inst_json = [&] {
    char buf[400];
    std::snprintf(buf, sizeof buf, "{\"kind\":\"%s\",\"N\":%d,\"elem\":\"%s\",\"cat\":\"%s\",\"cmp\":\"%s\",\"vec\":\"%s\",\"back\":\"%s\",\"alloc\":\"%s\",\"keys\":%d,\"std\":%ld}",
                  kKindName, N, E::name(), E::cat(), kCmpName, kFlat ? kVecName : "-",
#if CFG_KIND == 1
                  kBackName,
#else
                  "-",
#endif
                  kAllocName, KEYS, (long)__cplusplus);
    return std::string(buf);
  };

  if (!replay.empty()) {
    std::vector<Op> h;
    std::stringstream ss(replay);
    std::string t;
    while (ss >> t) {
      Op op;
      if (!op_parse(t, op)) {
        std::fprintf(stderr, "bad op %s\n", t.c_str());
        return 2;
      }
      h.push_back(op);
    }
    if (h.empty()) return 2;
    Op last = h.back();
    h.pop_back();
    RunResult r = run_once(h, &last, K, nullptr, o);
    std::printf("instantiation: %s\nhistory: %s\nop: %s\nkey_before: %s\nkey_after: %s\ndigest: %llx\n", inst_json().c_str(), hist_str(h).c_str(),
                op_str(last).c_str(), r.key_before.c_str(), r.key_after.c_str(), (unsigned long long)r.digest);
    for (int f = 0; f < vf::L().nfail; ++f) std::printf("FAIL [%s] %s\n", vf::L().fails[f].tags, vf::L().fails[f].msg);
    if (!static_fail.empty()) std::printf("FAIL [C14] %s\n", static_fail.c_str());
    return (r.nfail || !static_fail.empty()) ? 1 : 0;
  }
  if (!explore) return 2;

  std::unordered_map<std::string, int> seen;
  std::vector<State> states;
  std::vector<std::string> keys;
  auto history = [&](int id) {
    std::vector<Op> h;
    while (id > 0) {
      h.push_back(states[id].op);
      id = states[id].parent;
    }
    std::reverse(h.begin(), h.end());
    return h;
  };

  // multiset of successor keys of the state reached by history H (for the merge self-check)
  auto succ_keys = [&](const std::vector<Op> &H) {
    std::vector<std::string> ks;
    std::vector<Op> en;
    crumb(H, nullptr);
    run_once(H, nullptr, K, &en, o);
    std::vector<Op> ops2 = en;
    for (const Op &op : ops2) {
      crumb(H, &op);
      RunResult rr = run_once(H, &op, K, nullptr, o);
      ks.push_back(rr.nfail ? std::string("FAIL") : rr.key_full);
    }
    std::sort(ks.begin(), ks.end());
    return ks;
  };
  long merges_checked = 0;
  {
    std::vector<Op> none;
    RunResult r0 = run_once(none, nullptr, K, nullptr, o);
    seen[r0.key_full] = 0;
    states.push_back(State{-1, Op(), 0, 0});
    keys.push_back(r0.key_full);
  }
  long transitions = 0, viol_total = 0, fault_transitions = 0, max_events = 0;
  std::map<uint64_t, int> digests;
  std::map<std::string, long> per_kind;
  struct VRec {
    std::string tags, msg, hist, op, key;
  };
  std::vector<VRec> viols;
  std::map<std::string, int> viol_sigs;
  std::vector<std::string> samples;
  bool complete = true;
  int maxdepth = 0;
  std::string nondet;
  std::vector<Op> enabled;
  for (size_t cur = 0; cur < states.size(); ++cur) {
    if (now_s() > deadline || (long)states.size() > maxstates) {
      complete = false;
      break;
    }
    std::vector<Op> h = history((int)cur);
    crumb(h, nullptr);
    RunResult rp = run_once(h, nullptr, K, &enabled, o);
    if (rp.key_before != strip_probe(keys[cur])) {
      nondet = "canon-on-replay failed for state " + keys[cur] + " via " + hist_str(h) + " got " + rp.key_before;
      break;
    }
    std::vector<Op> ops_here = enabled;
    for (const Op &op : ops_here) {
      crumb(h, &op);
      RunResult r = run_once(h, &op, K, nullptr, o);
      ++transitions;
      ++per_kind[kind_name(op.k)];
      digests[r.digest] = 1;
      if (r.key_before != strip_probe(keys[cur])) {
        nondet = "prefix replay diverged at state " + keys[cur] + " via " + hist_str(h);
        break;
      }
      if (samples.size() < 6 && (transitions % 4999) == 1) samples.push_back(hist_str(h) + " | " + op_str(op) + " -> " + r.key_after);
      if (r.nfail) {
        ++viol_total;
        std::string tags_seen;  // the first failure of every distinct tag set (an early one must not hide a later one)
        for (int f = 0; f < vf::L().nfail; ++f) {
          if (tags_seen.find(std::string("|") + vf::L().fails[f].tags + "|") != std::string::npos) continue;
          tags_seen += std::string("|") + vf::L().fails[f].tags + "|";
          std::string sig = std::string(kind_name(op.k)) + "|" + vf::L().fails[f].tags + "|" + vf::L().fails[f].msg;
          std::string norm;
          for (char c : sig) norm += (c >= '0' && c <= '9') ? '#' : c;
          if (viol_sigs.emplace(norm, 1).second && viols.size() < 200)
            viols.push_back(VRec{vf::L().fails[f].tags, vf::L().fails[f].msg, hist_str(h), op_str(op), keys[cur]});
        }
        if (failure_is_fatal()) continue;
      }
      {
        auto itm = seen.find(r.key_full);
        if (itm != seen.end() && merges_checked < merge_check && itm->second != (int)cur && !r.nfail) {
          std::vector<Op> h2 = h;
          h2.push_back(op);
          std::vector<Op> h1 = history(itm->second);
          if (hist_str(h1) != hist_str(h2)) {
            ++merges_checked;
            if (succ_keys(h1) != succ_keys(h2)) {
              nondet = "state abstraction unsound: histories [" + hist_str(h1) + "] and [" + hist_str(h2) + "] share key " + r.key_full + " but have different successor keys";
              break;
            }
          }
        }
      }
      if (seen.find(r.key_full) == seen.end()) {
        seen.emplace(r.key_full, (int)states.size());
        states.push_back(State{(int)cur, op, states[cur].depth + 1, states[cur].faults});
        keys.push_back(r.key_full);
        maxdepth = std::max(maxdepth, states[cur].depth + 1);
      }
      if (fault_bound > 0 && states[cur].faults < fault_bound) {
        const long EV = r.events;
        max_events = std::max(max_events, EV);
        for (long k = 1; k <= EV; ++k) {
          Op fop = op;
          fop.f = (int)k;
          crumb(h, &fop);
          RunResult rf = run_once(h, &fop, K, nullptr, o);
          ++transitions;
          ++fault_transitions;
          digests[rf.digest] = 1;
          if (!g_fault_seen) {
            nondet = "fault " + std::to_string(k) + " of " + std::to_string(EV) + " did not fire in " + op_str(fop) + " after " + hist_str(h);
            break;
          }
          if (rf.nfail) {
            ++viol_total;
            std::string sig = std::string(kind_name(op.k)) + "|fault|" + vf::L().fails[0].tags + "|" + vf::L().fails[0].msg;
            std::string norm;
            for (char c : sig) norm += (c >= '0' && c <= '9') ? '#' : c;
            if (viol_sigs.emplace(norm, 1).second && viols.size() < 200)
              viols.push_back(VRec{vf::L().fails[0].tags, vf::L().fails[0].msg, hist_str(h), op_str(fop), keys[cur]});
            continue;
          }
          if (seen.find(rf.key_full) == seen.end()) {
            seen.emplace(rf.key_full, (int)states.size());
            states.push_back(State{(int)cur, fop, states[cur].depth + 1, states[cur].faults + 1});
            keys.push_back(rf.key_full);
            maxdepth = std::max(maxdepth, states[cur].depth + 1);
          }
        }
        if (!nondet.empty()) break;
      }
    }
    if (!nondet.empty()) break;
  }
  if (samples.empty() && states.size() > 1) samples.push_back(hist_str(history((int)states.size() - 1)));
  std::printf("{\"instantiation\":%s,\n", inst_json().c_str());
  std::printf("\"K\":%d,\"L\":%d,\"reloc\":%d,\"states\":%zu,\"transitions\":%ld,\"max_depth\":%d,\"distinct_outcomes\":%zu,\"complete\":%s,\"violating_transitions\":%ld,\"fault_bound\":%d,\"fault_transitions\":%ld,\"max_fault_points_per_op\":%ld,\n",
              K, KEYS, g_reloc, states.size(), transitions, maxdepth, digests.size(), complete ? "true" : "false", viol_total, fault_bound, fault_transitions, max_events);
  std::printf("\"merges_checked\":%ld,\"claims_reloc\":%s,\"static_fail\":\"%s\",\"nondeterminism\":\"%s\",\n", merges_checked, claims ? "true" : "false", jesc(static_fail).c_str(), jesc(nondet).c_str());
  std::printf("\"per_kind\":{");
  bool first = true;
  for (auto &kv : per_kind) {
    std::printf("%s\"%s\":%ld", first ? "" : ",", kv.first.c_str(), kv.second);
    first = false;
  }
  std::printf("},\n\"samples\":[");
  for (size_t x = 0; x < samples.size(); ++x) std::printf("%s\"%s\"", x ? "," : "", jesc(samples[x]).c_str());
  std::printf("],\n\"violations\":[");
  for (size_t x = 0; x < viols.size(); ++x)
    std::printf("%s{\"tags\":\"%s\",\"msg\":\"%s\",\"hist\":\"%s\",\"op\":\"%s\",\"state\":\"%s\"}", x ? ",\n" : "", viols[x].tags.c_str(),
                jesc(viols[x].msg).c_str(), jesc(viols[x].hist).c_str(), viols[x].op.c_str(), jesc(viols[x].key).c_str());
  std::printf("]}\n");
  return 0;
}
