// Instantiation selected by -D macros, shared by the vector explorers.  C++17.
//   CFG_FLAVOUR 0 amc::vector | 1 SmallVector<N> | 2 FixedCapacityVector<N> throwing | 3 FixedCapacityVector<N> unchecked
//   CFG_N       inline / fixed capacity
//   CFG_ELEM    1 TC1(uint8) | 4 TC4(int32) | 12 TC12 | 32 TC32 (alignas 32) | 300 TC300 (300 bytes) | 20 TR | 21 NTR | 22 pair<TR,TR> | 23 pair<TR,NTR>
//   CFG_ST      size_type
//   CFG_ALLOC   0 amc::allocator | 1 std::allocator | 2 LedgerStd | 3 LedgerRealloc | 4 BasicAllocatorWrapper<LedgerBasic>
#pragma once
#include <amc/fixedcapacityvector.hpp>
#include <amc/smallvector.hpp>
#include <amc/vector.hpp>

#include <cstdint>
#include <memory>

#include "allocs.hpp"
#include "elems.hpp"

#ifndef CFG_FLAVOUR
#define CFG_FLAVOUR 1
#endif
#ifndef CFG_N
#define CFG_N 2
#endif
#ifndef CFG_ELEM
#define CFG_ELEM 4
#endif
#ifndef CFG_ST
#define CFG_ST uint32_t
#endif
#ifndef CFG_ALLOC
#define CFG_ALLOC 0
#endif

namespace cfg {
#if CFG_ELEM == 1
typedef uint8_t T;
#elif CFG_ELEM == 2
typedef signed char T;
#elif CFG_ELEM == 4
typedef int32_t T;
#elif CFG_ELEM == 12
typedef vf::TC12 T;
#elif CFG_ELEM == 32
typedef vf::TC32 T;
#elif CFG_ELEM == 300
typedef vf::TC300 T;
#elif CFG_ELEM == 20
typedef vf::TR T;
#elif CFG_ELEM == 21
typedef vf::NTR T;
#elif CFG_ELEM == 22
typedef vf::PTT T;
#elif CFG_ELEM == 23
typedef vf::PTN T;
#else
#error bad CFG_ELEM
#endif
typedef CFG_ST ST;
constexpr int N = CFG_N;
constexpr int FLAVOUR = CFG_FLAVOUR;
constexpr bool kFixed = FLAVOUR >= 2;
constexpr bool kFixedThrow = FLAVOUR == 2;
constexpr bool kSmall = FLAVOUR == 1;
constexpr bool kDyn = FLAVOUR <= 1;

template <class U>
using LedgerRealloc = vf::LedgerReallocImpl<U, vf::expect_reloc<U> >;

#if CFG_ALLOC == 0
template <class U>
using AllocT = amc::allocator<U>;
constexpr bool kLedgerAlloc = false;
constexpr const char *kAllocName = "amc";
#elif CFG_ALLOC == 1
template <class U>
using AllocT = std::allocator<U>;
constexpr bool kLedgerAlloc = false;
constexpr const char *kAllocName = "std";
#elif CFG_ALLOC == 2
template <class U>
using AllocT = vf::LedgerStd<U>;
constexpr bool kLedgerAlloc = true;
constexpr const char *kAllocName = "ledgerstd";
#elif CFG_ALLOC == 3
template <class U>
using AllocT = LedgerRealloc<U>;
constexpr bool kLedgerAlloc = true;
constexpr const char *kAllocName = "ledgerrealloc";
#elif CFG_ALLOC == 4
template <class U>
using AllocT = amc::BasicAllocatorWrapper<U, vf::LedgerBasic>;
constexpr bool kLedgerAlloc = true;
constexpr const char *kAllocName = "ledgerbasic";
#endif
typedef AllocT<T> Alloc;

#if CFG_FLAVOUR == 0
typedef amc::vector<T, Alloc, ST> V;
constexpr const char *kFlavourName = "vector";
#elif CFG_FLAVOUR == 1
typedef amc::SmallVector<T, CFG_N, Alloc, ST> V;
constexpr const char *kFlavourName = "small";
#elif CFG_FLAVOUR == 2
typedef amc::FixedCapacityVector<T, CFG_N, amc::vec::ExceptionGrowingPolicy, ST> V;
constexpr const char *kFlavourName = "fixed";
#else
typedef amc::FixedCapacityVector<T, CFG_N, amc::vec::UncheckedGrowingPolicy, ST> V;
constexpr const char *kFlavourName = "fixedu";
#endif
typedef amc::vector<T, Alloc, ST> Donor;  // for SmallVector(vector&&)

typedef vf::El<T> E;
}  // namespace cfg
