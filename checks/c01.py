"""C01 -- vector flavours behave as std::vector for every operation history (E1, monitor ref)."""
from checks import e1


def run(ctx):
    matrix = e1.quick_matrix() if ctx.tier == "quick" else e1.thorough_matrix()
    cov = e1.explore(ctx, matrix, ["C01"])
    return ctx.finish("model_checking", cov, e1.ASSUME)
