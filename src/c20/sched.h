/* C20 serialising scheduler: real threads, exactly one runnable at a time, hand-off through one futex word per
 * thread (raw SYS_futex, so ThreadSanitizer sees no happens-before edge between the worker threads).
 *
 * This TU (sched.c) is compiled WITHOUT -fsanitize=thread and WITHOUT -finstrument-functions.
 *
 * A *scheduling point* is a place where the scheduler may pass the token to another thread:
 *   SCHED_K_START  the initial decision (which thread runs first); no thread is running, so it is a free choice
 *   SCHED_K_OP     an operation boundary inside a worker (explicit sched_point() between two operations)
 *   SCHED_K_FUNC   a function entry inside the region of interest ("fine" build, -finstrument-functions)
 *   SCHED_K_EXIT   a worker finished; the token has to move, so it is a free choice as well
 * At each point the enabled list is: the running thread first (if it is still enabled), then all other
 * unfinished threads in ascending id.  choice 0 == "keep running" (or lowest id when nobody is running).
 * Choices come from a prefix to replay, then default to 0.  Any divergence is a hard error (exit 3).
 */
#ifndef C20_SCHED_H
#define C20_SCHED_H

#ifdef __cplusplus
extern "C" {
#endif

#define SCHED_MAX_THREADS 4
#define SCHED_MAX_POINTS (1 << 16)

enum { SCHED_K_START = 0, SCHED_K_OP = 1, SCHED_K_FUNC = 2, SCHED_K_EXIT = 3 };

typedef struct {
  unsigned char nen;         /* number of enabled threads at this point */
  unsigned char chosen;      /* index taken in the enabled list */
  unsigned char cur_enabled; /* 1 if a running thread was still enabled (then chosen != 0 is a preemption) */
  unsigned char kind;        /* SCHED_K_* */
  signed char tid;           /* thread that hit the point (-1 for SCHED_K_START) */
  signed char next;          /* thread that runs after the point */
  unsigned short opidx;      /* operation index of tid at the point */
  unsigned funcnt;           /* function entries seen by tid inside its current operation */
} sched_rec;

/* Identity of a scheduling point: enabled-set size, kind, thread and its position.  Recorded by the explorer and
 * handed back with the prefix, so that a replay that reaches a different point is detected, not silently accepted. */
static inline unsigned sched_sig(const sched_rec *r) {
  return (unsigned)r->nen | ((unsigned)r->kind << 3) | ((unsigned)(r->tid + 1) << 5) | (((unsigned)r->opidx << 8) ^ (r->funcnt << 12));
}

/* Prepare one controlled run of nthreads workers.  prefix[0..nprefix) are the choices to replay; if expect_sig is
 * not NULL it holds sched_sig() of the point recorded for each prefix entry (checked -> exit 3 on mismatch). */
void sched_begin(int nthreads, const int *prefix, int nprefix, const unsigned *expect_sig);
/* Worker side. */
void sched_thread_start(int tid); /* first call of a worker: parks until the scheduler hands it the token */
void sched_op_boundary(void);     /* between two operations: bumps opidx, resets funcnt, scheduling point */
void sched_thread_exit(void);     /* last call of a worker */
void sched_roi(int on);           /* function-entry points are only taken while the running worker set this */
/* Main side: wait until all workers are parked, take the initial decision, block until every worker exited. */
void sched_run(void);
/* Results of the last run. */
int sched_npoints(void);
const sched_rec *sched_trace(void);

/* Free-running mode helper (no scheduler): spin barrier that creates no sanitizer-visible happens-before. */
void sched_barrier_init(int n);
void sched_barrier_wait(void);

/* Worker pool helper (plain build only; the TSan build starts fresh threads for every schedule): pool threads sleep
 * in sched_pool_wait() until the generation word changes; it returns the number of workers of the new generation
 * (pool thread t takes part iff t < that number).  The count travels in the same word as the generation, so a slow
 * pool thread can never pair an old generation with a newer job.  Only main calls sched_pool_release(). */
int sched_pool_wait(int *seen);
void sched_pool_release(int nthreads);

/* scenario / schedule description printed with every hard error (set by the harness) */
void sched_set_context(const char *text);

#ifdef __cplusplus
}
#endif
#endif
