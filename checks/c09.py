"""C09 -- exception safety: E3 = fault enumeration on top of the E1 / E2 state sets.

For every explored (state, operation) the number E of throwing events (element value/copy construction, copy
assignment, allocator allocate/reallocate) inside the operation is measured, then the history is replayed E times with
the k-th event throwing, for every k.  The state a fault leaves behind is itself explored further (deviation bound 1
in quick, 2 in thorough)."""
from checks import e1, e2


def vec_matrix(q):
    I = e1.inst
    fb = ["--fault", "1"] if q else ["--fault", "2"]
    few = ["--few-ranges"]
    if q:
        m = [
            I("small", 2, "NTR", alloc="ledgerstd", L=4, opts=few + fb),
            I("small", 2, "TR", st="uint8_t", alloc="ledgerrealloc", L=4, opts=few + fb),
            I("small", 3, "TC4", alloc="ledgerbasic", L=4, opts=few + ["--no-ctors"] + fb),
            I("vector", 0, "NTR", alloc="ledgerstd", L=3, opts=few + fb),
            I("vector", 0, "TR", alloc="ledgerrealloc", L=3, opts=few + fb),
            I("fixed", 3, "NTR", st="uint8_t", L=3, opts=few + fb),
            I("fixed", 2, "TR", st="uint8_t", L=2, opts=fb),
            I("small", 1, "PTN", alloc="ledgerstd", L=3, opts=few + fb),
        ]
    else:
        m = []
        for fl, N, L in (("small", 1, 3), ("small", 2, 4), ("small", 3, 5), ("vector", 0, 4), ("fixed", 3, 3), ("fixed", 4, 4)):
            for el in ("TC4", "TR", "NTR", "PTN", "PTT"):
                for al in (("ledgerstd", "ledgerrealloc", "ledgerbasic") if not fl.startswith("fixed") else ("amc",)):
                    if el == "TC4" and fl.startswith("fixed"):
                        continue
                    m.append(I(fl, N, el, alloc=al, st="uint8_t" if fl.startswith("fixed") else "uint32_t", L=L, opts=few + fb))
        m.append(I("small", 2, "NTR", alloc="ledgerstd", K=2, L=2, opts=few + ["--no-ctors", "--fault", "1"]))
    return m


def run(ctx):
    q = ctx.tier == "quick"
    cov = e1.explore(ctx, vec_matrix(q), [], any_fail_counts=True, only_faulted=True)
    sm = e2.fault_matrix(q)
    cov2 = e1.explore(ctx, sm, [], engine="E2", eng=e2.ENG, any_fail_counts=True, only_faulted=True)
    cov = e1.merge_cov(cov, cov2)
    # present the fault-enumeration numbers in the keys this level requires
    cov["evaluations"] = cov["transitions"]
    cov["distinct_nontrivial"] = cov.get("fault_transitions", 0)
    cov["rule"] = ("one evaluation = one execution of (history, operation[, fault index k]) on fresh containers; non-trivial and distinct = "
                   "an execution in which the k-th throwing event of the final operation really threw (each (state, operation, k) once)")
    return ctx.finish("fault_enumeration", cov, e1.ASSUME + ["fault points: element value/default/copy construction, copy assignment, allocate/reallocate of the ledger allocators; element moves are noexcept"])
