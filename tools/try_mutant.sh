#!/bin/bash
# try_mutant.sh <diff> <check> [<check>...]: apply a seeded change to /repo, run the given quick checks, ALWAYS undo.
DIFF=$1; shift
cd /repo && git apply "$DIFF" || { echo APPLY-FAILED; exit 2; }
trap 'git -C /repo checkout -q -- .' EXIT
cd /verif
for c in "$@"; do
  out=$(python3 bin/check "$c" --tier quick 2>&1); rc=$?
  echo "== $c rc=$rc $(echo "$out" | grep -c '^VIOLATION') violations"
  echo "$out" | grep -E "signature:" | head -4
done
