// C19 -- lookups are logarithmic; a correct hint makes insertion search-free; inline SmallSet lookups are <= 2N+2.
// Counting comparator; complete grid: every n in 0..NMAX, every key rank (present and absent), every lookup and
// insert / emplace / erase(key); every CORRECT hint (hint == lower_bound(v)) for every absent and present key.
//   -DC19_VEC 0 amc::vector | 1 SmallVector<int,4> | 3 std::vector     -DC19_CMP 0 less | 1 greater | 2 transparent
//   -DC19_ELEM 0 int | 1 Key: a class type converting from int, with a (int,int) constructor and a copy constructor but no
//              noexcept move ("legacy" type): emplace / emplace_hint then receive constructor ARGUMENTS rather than a value,
//              and every trait-selected insertion path for types whose move may throw is instantiated
#include <amc/flatset.hpp>
#include <amc/smallset.hpp>
#include <amc/smallvector.hpp>

#include <algorithm>
#include <cstdio>
#include <set>
#include <string>
#include <type_traits>
#include <vector>

#ifndef C19_VEC
#define C19_VEC 0
#endif
#ifndef C19_CMP
#define C19_CMP 0
#endif

#ifndef C19_ELEM
#define C19_ELEM 0
#endif

static long g_calls = 0;
#if C19_ELEM == 1
struct Key {
  int k;
  Key(int x = 0) : k(x) {}
  Key(int a, int b) : k(a + b) {}
  Key(const Key &o) : k(o.k) {}
  Key &operator=(const Key &o) {
    k = o.k;
    return *this;
  }
};
static_assert(!std::is_nothrow_move_constructible<Key>::value && std::is_copy_constructible<Key>::value, "Key is a legacy type");
typedef Key ELT;
static inline int val(const Key &x) { return x.k; }
#else
typedef int ELT;
static inline int val(int x) { return x; }
#endif
/// heterogeneous "bucket" key: equivalent to every element x with x / 64 == b (a run of up to 32 elements)
struct Bucket {
  int b;
};
struct CntTransparent {
  typedef void is_transparent;
  bool operator()(int a, int b) const {
    ++g_calls;
    return a < b;
  }
  bool operator()(int a, Bucket k) const {
    ++g_calls;
    return a / 64 < k.b;
  }
  bool operator()(Bucket k, int a) const {
    ++g_calls;
    return k.b < a / 64;
  }
};
struct CntLess {
  bool operator()(const ELT &a, const ELT &b) const {
    ++g_calls;
#if C19_CMP == 0
    return val(a) < val(b);
#else
    return val(a) > val(b);
#endif
  }
};
#if C19_VEC == 0
typedef amc::vector<ELT> UV;
#elif C19_VEC == 1
typedef amc::SmallVector<ELT, 4> UV;
#else
typedef std::vector<ELT, amc::allocator<ELT> > UV;
#endif
#if C19_CMP == 2
typedef amc::FlatSet<int, CntTransparent, amc::allocator<int>, UV> FS;
#else
typedef amc::FlatSet<ELT, CntLess, amc::allocator<ELT>, UV> FS;
#endif

static long g_eval = 0, g_nontrivial = 0;
static std::vector<std::string> g_fail, g_samples;
static std::string g_only;
static long ceil_log2(long n) {
  long l = 0;
  while ((1L << l) < n) ++l;
  return l;
}
static void fail(const std::string &m) {
  if (g_fail.size() < 40) g_fail.push_back(m);
}
template <class F>
static long count(F &&f) {
  g_calls = 0;
  f();
  return g_calls;
}

int main(int argc, char **argv) {
  long NMAX = 128;
  for (int a = 1; a + 1 < argc; ++a) {
    if (std::string(argv[a]) == "--nmax") NMAX = std::atol(argv[a + 1]);
    if (std::string(argv[a]) == "--case") g_only = argv[a + 1];
  }
  long hint_max_small = 0, hint_max_large = 0, lookup_max = 0, node_hint_small = 0, node_hint_large = 0;
  // sizes: every n up to 128, then (thorough) every n up to NMAX in steps that still hit every power-of-two boundary
  std::vector<long> sizes;
  for (long n = 0; n <= std::min<long>(NMAX, 128); ++n) sizes.push_back(n);
  for (long n = 129; n <= NMAX; ++n)
    if (n <= 300 || (n & (n - 1)) == 0 || ((n + 1) & n) == 0 || ((n - 1) & (n - 2)) == 0 || n % 97 == 0) sizes.push_back(n);
  for (long n : sizes) {
    FS base;
    {
      UV v;
      for (long i = 0; i < n; ++i) v.push_back(ELT((int)(2 * i + 2)));  // even keys 2,4,..,2n
#if C19_CMP == 1
      std::reverse(v.begin(), v.end());
#endif
      base = FS(std::move(v));
    }
    const long bound = 2 * ceil_log2(n + 1) + 4;
    for (long key = 1; key <= 2 * n + 3; ++key) {  // odd = absent (every gap, below and above), even = present
      char idb[64];
      std::snprintf(idb, sizeof idb, "n=%ld|key=%ld", n, key);
      if (!g_only.empty() && g_only != idb) continue;
      const int k = (int)key;
      long c;
      const char *ops[] = {"find", "contains", "count", "lower_bound", "upper_bound", "equal_range"};
      for (int o = 0; o < 6; ++o) {
        c = count([&] {
          switch (o) {
            case 0: (void)base.find(k); break;
            case 1: (void)base.contains(k); break;
            case 2: (void)base.count(k); break;
            case 3: (void)base.lower_bound(k); break;
            case 4: (void)base.upper_bound(k); break;
            case 5: (void)base.equal_range(k); break;
          }
        });
        ++g_eval;
        lookup_max = std::max(lookup_max, c);
        if (c > bound) fail(std::string(idb) + "|" + ops[o] + "|" + std::to_string(c) + " comparator calls > " + std::to_string(bound));
      }
      if (n <= 128 || key % 7 == 0) {
        // position search of insert / emplace / erase(key), on copies (copying costs no comparison)
        FS s1 = base, s2 = base, s3 = base;
        c = count([&] { s1.insert(k); });
        ++g_eval;
        if (c > bound) fail(std::string(idb) + "|insert|" + std::to_string(c) + " comparator calls > " + std::to_string(bound));
        c = count([&] { s2.emplace(k); });
        ++g_eval;
        if (c > bound) fail(std::string(idb) + "|emplace|" + std::to_string(c) + " comparator calls > " + std::to_string(bound));
        c = count([&] { s3.erase(k); });
        ++g_eval;
        if (c > bound) fail(std::string(idb) + "|erase|" + std::to_string(c) + " comparator calls > " + std::to_string(bound));
        // correct hint: hint == lower_bound(key)
        FS s4 = base, s5 = base;
        auto h4 = s4.lower_bound(k);
        c = count([&] { s4.insert(h4, k); });
        ++g_eval;
        ++g_nontrivial;
        if (n >= 8 && n < 16) hint_max_small = std::max(hint_max_small, c);
        if (n >= 100) hint_max_large = std::max(hint_max_large, c);
        if (c > 8) fail(std::string(idb) + "|insert(correct hint)|" + std::to_string(c) + " comparator calls > 8");
        auto h5 = s5.lower_bound(k);
        c = count([&] { s5.emplace_hint(h5, k); });
        ++g_eval;
        if (c > 8) fail(std::string(idb) + "|emplace_hint(correct hint)|" + std::to_string(c) + " comparator calls > 8");
        if (s4.size() != s1.size()) fail(std::string(idb) + "|hinted insertion changed the result");
#if C19_ELEM == 1
        {
          // constructor arguments instead of a value: (int) and (int, int)
          FS s7 = base, s8 = base, s9 = base;
          auto h7 = s7.lower_bound(k);
          c = count([&] { s7.emplace_hint(h7, k - 1, 1); });
          ++g_eval;
          ++g_nontrivial;
          if (n >= 8 && n < 16) hint_max_small = std::max(hint_max_small, c);
          if (n >= 100) hint_max_large = std::max(hint_max_large, c);
          if (c > 8) fail(std::string(idb) + "|emplace_hint(correct hint, two arguments)|" + std::to_string(c) + " comparator calls > 8");
          c = count([&] { s8.emplace(k - 1, 1); });
          ++g_eval;
          if (c > bound) fail(std::string(idb) + "|emplace(two arguments)|" + std::to_string(c) + " comparator calls > " + std::to_string(bound));
          const ELT lv(k);
          c = count([&] { s9.insert(lv); });
          ++g_eval;
          if (c > bound) fail(std::string(idb) + "|insert(const&)|" + std::to_string(c) + " comparator calls > " + std::to_string(bound));
          if (s7.size() != s1.size() || s8.size() != s1.size() || s9.size() != s1.size()) fail(std::string(idb) + "|argument-pack insertion changed the result");
        }
#endif
        // correctly hinted insertion of a node handle
        FS s6 = base, donor;
        donor.insert(k);
        auto nh = donor.extract(k);
        auto h6 = s6.lower_bound(k);
        c = count([&] { s6.insert(h6, std::move(nh)); });
        ++g_eval;
        ++g_nontrivial;
        if (n >= 8 && n < 16) node_hint_small = std::max(node_hint_small, c);
        if (n >= 100) node_hint_large = std::max(node_hint_large, c);
        if (c > 8) fail(std::string(idb) + "|insert(correct hint, node)|" + std::to_string(c) + " comparator calls > 8");
      }
#if C19_CMP == 2
      if (key % 64 == 33) {
        // heterogeneous lookups with a key equivalent to a whole run of elements
        Bucket bk{(int)(key / 64)};
        const char *tops[] = {"find(bucket)", "contains(bucket)", "count(bucket)", "lower_bound(bucket)", "upper_bound(bucket)"};
        for (int o = 0; o < 5; ++o) {
          c = count([&] {
            switch (o) {
              case 0: (void)base.find(bk); break;
              case 1: (void)base.contains(bk); break;
              case 2: (void)base.count(bk); break;
              case 3: (void)base.lower_bound(bk); break;
              case 4: (void)base.upper_bound(bk); break;
            }
          });
          ++g_eval;
          ++g_nontrivial;
          if (c > bound) fail(std::string(idb) + "|" + tops[o] + "|" + std::to_string(c) + " comparator calls > " + std::to_string(bound));
        }
      }
#endif
    }
    if (g_samples.size() < 5 && (n == 5 || n == 64 || n == 128 || n == NMAX)) g_samples.push_back("n=" + std::to_string(n) + ": max comparator calls per lookup so far " + std::to_string(lookup_max) + " (bound " + std::to_string(bound) + ")");
  }
  if (NMAX >= 100 && hint_max_small != hint_max_large)
    fail("correct-hint insertion cost depends on n: max " + std::to_string(hint_max_small) + " for n in [8,16) but " + std::to_string(hint_max_large) + " for n >= 100");
  if (NMAX >= 100 && node_hint_small != node_hint_large)
    fail("correct-hint node insertion cost depends on n: max " + std::to_string(node_hint_small) + " for n in [8,16) but " + std::to_string(node_hint_large) + " for n >= 100");
  // SmallSet in its inline state: at most 2N + 2 comparator calls per lookup
#define SS_CASE(NN)                                                                                                        \
  {                                                                                                                        \
    for (int m = 0; m <= NN; ++m) {                                                                                        \
      amc::SmallSet<int, NN, CntLess> s;                                                                                   \
      for (int i = 0; i < m; ++i) s.insert(2 * i + 2);                                                                     \
      for (int key = 1; key <= 2 * m + 3; ++key) {                                                                         \
        long c1 = count([&] { (void)s.find(key); }), c2 = count([&] { (void)s.contains(key); }), c3 = count([&] { (void)s.count(key); }); \
        g_eval += 3;                                                                                                       \
        ++g_nontrivial;                                                                                                    \
        if (c1 > 2 * NN + 2 || c2 > 2 * NN + 2 || c3 > 2 * NN + 2)                                                           \
          fail("smallset N=" #NN "|m=" + std::to_string(m) + "|key=" + std::to_string(key) + "|" + std::to_string(std::max(c1, std::max(c2, c3))) + " comparator calls > 2N+2"); \
      }                                                                                                                    \
    }                                                                                                                      \
  }
  if (g_only.empty() && C19_ELEM == 0) {
    SS_CASE(1) SS_CASE(2) SS_CASE(3) SS_CASE(5) SS_CASE(8) SS_CASE(16)
  }
  std::printf("{\"evaluations\":%ld,\"distinct_nontrivial\":%ld,\"nmax\":%ld,\"max_calls_per_lookup\":%ld,\"max_calls_correct_hint_n8_15\":%ld,\"max_calls_correct_hint_n_ge_100\":%ld,\"failures\":[",
              g_eval, g_nontrivial, NMAX, lookup_max, hint_max_small, hint_max_large);
  for (size_t i = 0; i < g_fail.size(); ++i) std::printf("%s\"%s\"", i ? "," : "", g_fail[i].c_str());
  std::printf("],\"samples\":[");
  for (size_t i = 0; i < g_samples.size(); ++i) std::printf("%s\"%s\"", i ? "," : "", g_samples[i].c_str());
  std::printf("]}\n");
  return g_fail.empty() ? 0 : 1;
}
