// C15, argument forms of construct_at: amc::construct_at(p, args...) must build the very object that
// std::construct_at / `::new (p) T(args...)` builds -- DIRECT initialisation, for every shape of argument pack the
// library can be handed (no argument, one argument of another type, several arguments, lvalue / const / rvalue mixes,
// one T in every value category).  The element type ILT tells its constructors apart, in particular T(int, int) from
// T(std::initializer_list<int>), which parenthesis and brace initialisation resolve differently.
// The same packs are sent through emplace_back / emplace of the library's vectors (they forward to construct_at) and
// compared with std::vector.
// Included by c15.cpp (needs its drivers); compiled as its own part (C15_PART == 8).  C++11.
#pragma once
#if C15_IN_PART(8)
#include <amc/fixedcapacityvector.hpp>
#include <amc/smallvector.hpp>
#include <amc/vector.hpp>

#include <initializer_list>
#include <vector>

namespace c15 {

/// Records which constructor built it and with what.  Trivially copyable; no fault points.
struct ILT {
  int kind;  // 0 default, 1 (int,int), 2 initializer_list, 3 (int), 4 (int,int,int); copies keep the original's
  int a, b;
  ILT() : kind(0), a(0), b(0) {}
  explicit ILT(int n) : kind(3), a(n), b(0) {}
  ILT(int n, int v) : kind(1), a(n), b(v) {}
  ILT(int x, int y, int z) : kind(4), a(x), b(y + 100 * z) {}
  ILT(std::initializer_list<int> il) : kind(2), a(static_cast<int>(il.size())), b(0) {
    for (std::initializer_list<int>::const_iterator it = il.begin(); it != il.end(); ++it) b += *it;
  }
};
template <>
struct Tr<ILT> {
  static const bool tracked = false;
  static const char *name() { return "ILT"; }
  static int val(const ILT &e) { return e.kind * 1000000 + e.a * 1000 + e.b; }  // all three fields, a and b < 1000
  static int moved(const ILT &) { return 0; }
  static bool alive(const ILT *) { return true; }
  static int id(const ILT *) { return -1; }
};

// ---- the three worlds -------------------------------------------------------------------------------------------------
struct AmcArgs {
  template <class T, class... A>
  static const void *make(T *p, A &&...a) { return amc::construct_at(p, std::forward<A>(a)...); }
};
struct RefArgs {  // [specialized.construct]: ::new (voidify(*p)) T(std::forward<Args>(args)...)
  template <class T, class... A>
  static const void *make(T *p, A &&...a) { return ::new (static_cast<void *>(p)) T(std::forward<A>(a)...); }
};
#if C15_STD20
struct StdArgs {
  template <class T, class... A>
  static const void *make(T *p, A &&...a) { return std::construct_at(p, std::forward<A>(a)...); }
};
#endif

// ---- argument shapes of construct_at ------------------------------------------------------------------------------------
enum ArgShape {
  SH_NONE, SH_INT_RV, SH_INT_LV, SH_INT_CLV, SH_II_RV, SH_II_LV_CLV, SH_II_RV_LV, SH_SHORT_CHAR, SH_III,
  SH_T_LV, SH_T_CLV, SH_T_RV, SH_T_CRV, SH_COUNT
};
inline const char *shape_name(int s) {
  static const char *const names[SH_COUNT] = {"()", "(int&&)", "(int&)", "(const int&)", "(int&&,int&&)", "(int&,const int&)",
                                              "(int&&,int&)", "(short&,char&&)", "(int&&,int&&,int&&)",
                                              "(T&)", "(const T&)", "(T&&)", "(const T&&)"};
  return names[s];
}
/// thunk for drive_single: d = raw destination, s = a live T (value 10) for the shapes that pass one
template <class W, int SHAPE>
struct ArgCall;
#define C15_ARGCALL(SHAPE, BODY)                          \
  template <class W>                                      \
  struct ArgCall<W, SHAPE> {                              \
    template <class T>                                    \
    static const void *call(T *d, T &s, Obs &) {          \
      (void)s;                                            \
      BODY                                                \
    }                                                     \
  };
C15_ARGCALL(SH_NONE, return W::make(d);)
C15_ARGCALL(SH_INT_RV, return W::make(d, 5);)
C15_ARGCALL(SH_INT_LV, int x = 5; return W::make(d, x);)
C15_ARGCALL(SH_INT_CLV, const int x = 5; return W::make(d, x);)
C15_ARGCALL(SH_II_RV, return W::make(d, 2, 7);)
C15_ARGCALL(SH_II_LV_CLV, int x = 2; const int y = 7; return W::make(d, x, y);)
C15_ARGCALL(SH_II_RV_LV, int x = 2; int y = 7; return W::make(d, std::move(x), y);)
C15_ARGCALL(SH_SHORT_CHAR, short x = 2; char y = 7; return W::make(d, x, std::move(y));)
C15_ARGCALL(SH_III, return W::make(d, 1, 2, 3);)
C15_ARGCALL(SH_T_LV, return W::make(d, s);)
C15_ARGCALL(SH_T_CLV, return W::make(d, static_cast<const T &>(s));)
C15_ARGCALL(SH_T_RV, return W::make(d, std::move(s));)
C15_ARGCALL(SH_T_CRV, return W::make(d, std::move(static_cast<const T &>(s)));)
#undef C15_ARGCALL

template <class W, int SHAPE, class T>
Runner args_runner() {
  const void *(*thunk)(T *, T &, Obs &) = &ArgCall<W, SHAPE>::template call<T>;
  Runner r = {&drive_single<T>, reinterpret_cast<AnyFn>(thunk)};
  return r;
}
template <int SHAPE, class T>
void group_args() {
  Tuple t = {OP_CAT_ARGS, shape_name(SHAPE), "ptr", Tr<T>::name(), 1};
#if C15_STD20
  Runner sd = args_runner<StdArgs, SHAPE, T>();
#else
  Runner sd = no_runner();
#endif
  explore(t, args_runner<AmcArgs, SHAPE, T>(), args_runner<RefArgs, SHAPE, T>(), sd);
}
template <int SHAPE, class T>
void add_args() {
  Group g = {OP_CAT_ARGS, shape_name(SHAPE), Tr<T>::name(), &group_args<SHAPE, T>};
  groups().push_back(g);
}

// ---- the same packs through the vectors' emplace_back / emplace ---------------------------------------------------------
// Scenario = start state (elements 10, 11, ... already inside; spare capacity or none) x where x argument pack.  The
// amc container plays the amc world, std::vector the reference world.  Observed: the new element (copied into the
// destination slot), the size (reported as ret_dst) and the value of the element next to it (reported as ret_src,
// "returned source iterator" in a failure message), which must not change.
enum VecShape {
  VE_BACK_EMPTY, VE_BACK_ROOM, VE_BACK_FULL, VE_BACK_1ARG, VE_BACK_0ARG, VE_BACK_3ARG, VE_BACK_LVALUES,
  VE_FRONT_ROOM, VE_FRONT_FULL, VE_MID_ROOM, VE_END_FULL, VE_COUNT
};
inline const char *vec_shape_name(int s) {
  static const char *const names[VE_COUNT] = {
      "emplace_back(2,7)@empty", "emplace_back(2,7)@room", "emplace_back(2,7)@full", "emplace_back(5)@room",
      "emplace_back()@full", "emplace_back(1,2,3)@room", "emplace_back(int&,const int&)@full",
      "emplace(begin,2,7)@room", "emplace(begin,2,7)@full", "emplace(begin+1,2,7)@room", "emplace(end,2,7)@full"};
  return names[s];
}
template <class V, class T>
const void *vec_cell(int shape, T *d, Obs &o) {
  V v;
  const bool empty = shape == VE_BACK_EMPTY;
  const bool room = shape == VE_BACK_ROOM || shape == VE_BACK_1ARG || shape == VE_BACK_3ARG || shape == VE_FRONT_ROOM ||
                    shape == VE_MID_ROOM;
  if (!empty) {
    v.push_back(T(10));  // not emplace: the start state must not depend on what is under test
    v.push_back(T(11));
    if (room) v.reserve(4);
    else v.shrink_to_fit();  // dynamic vectors: capacity == size, the next insertion has to grow
  }
  int x = 2;
  const int y = 7;
  size_t at = v.size();  // index of the new element
  switch (shape) {
    case VE_BACK_EMPTY:
    case VE_BACK_ROOM:
    case VE_BACK_FULL: v.emplace_back(2, 7); break;
    case VE_BACK_1ARG: v.emplace_back(5); break;
    case VE_BACK_0ARG: v.emplace_back(); break;
    case VE_BACK_3ARG: v.emplace_back(1, 2, 3); break;
    case VE_BACK_LVALUES: v.emplace_back(x, y); break;
    case VE_FRONT_ROOM:
    case VE_FRONT_FULL: v.emplace(v.begin(), 2, 7); at = 0; break;
    case VE_MID_ROOM: v.emplace(v.begin() + 1, 2, 7); at = 1; break;
    case VE_END_FULL: v.emplace(v.end(), 2, 7); break;
  }
  o.ret_dst = static_cast<long>(v.size());
  if (v.size() > 1) o.ret_src = Tr<T>::val(v[at == 0 ? 1 : at - 1]);
  ::new (static_cast<void *>(d)) T(v[at]);
  return d;
}
template <class V, int SHAPE>
struct VecCall {
  template <class T>
  static const void *call(T *d, T &, Obs &o) {
    const void *r = vec_cell<V, T>(SHAPE, d, o);
    (void)r;
    return d;
  }
};
template <class V, int SHAPE, class T>
Runner vec_runner() {
  const void *(*thunk)(T *, T &, Obs &) = &VecCall<V, SHAPE>::template call<T>;
  Runner r = {&drive_single<T>, reinterpret_cast<AnyFn>(thunk)};
  return r;
}
struct VkVector {
  static const char *name() { return "amc::vector"; }
  template <class T>
  struct Of {
    typedef amc::vector<T> type;
  };
};
struct VkSmall2 {
  static const char *name() { return "amc::SmallVector<2>"; }
  template <class T>
  struct Of {
    typedef amc::SmallVector<T, 2> type;
  };
};
struct VkFixed4 {  // never has to grow: the @full scenarios are @room scenarios for it
  static const char *name() { return "amc::FixedCapacityVector<4>"; }
  template <class T>
  struct Of {
    typedef amc::FixedCapacityVector<T, 4> type;
  };
};
template <class VK, int SHAPE, class T>
void group_vec() {
  Tuple t = {OP_VEC_EMPLACE, vec_shape_name(SHAPE), VK::name(), Tr<T>::name(), 1};
  explore(t, vec_runner<typename VK::template Of<T>::type, SHAPE, T>(), vec_runner<std::vector<T>, SHAPE, T>(), no_runner());
}
template <class VK, int SHAPE, class T>
void add_vec() {
  Group g = {OP_VEC_EMPLACE, vec_shape_name(SHAPE), Tr<T>::name(), &group_vec<VK, SHAPE, T>};
  groups().push_back(g);
}
template <class VK, class T>
void add_vec_kind() {
  add_vec<VK, VE_BACK_EMPTY, T>();
  add_vec<VK, VE_BACK_ROOM, T>();
  add_vec<VK, VE_BACK_FULL, T>();
  add_vec<VK, VE_BACK_1ARG, T>();
  add_vec<VK, VE_BACK_0ARG, T>();
  add_vec<VK, VE_BACK_3ARG, T>();
  add_vec<VK, VE_BACK_LVALUES, T>();
  add_vec<VK, VE_FRONT_ROOM, T>();
  add_vec<VK, VE_FRONT_FULL, T>();
  add_vec<VK, VE_MID_ROOM, T>();
  add_vec<VK, VE_END_FULL, T>();
}

template <class T>
void add_arg_forms() {
  add_args<SH_NONE, T>();
  add_args<SH_INT_RV, T>();
  add_args<SH_INT_LV, T>();
  add_args<SH_INT_CLV, T>();
  add_args<SH_II_RV, T>();
  add_args<SH_II_LV_CLV, T>();
  add_args<SH_II_RV_LV, T>();
  add_args<SH_SHORT_CHAR, T>();
  add_args<SH_III, T>();
  add_args<SH_T_LV, T>();
  add_args<SH_T_CLV, T>();
  add_args<SH_T_RV, T>();
  add_args<SH_T_CRV, T>();
  add_vec_kind<VkVector, T>();
  add_vec_kind<VkSmall2, T>();
  add_vec_kind<VkFixed4, T>();
}

}  // namespace c15
#endif  // C15_IN_PART(8)
