#!/bin/bash
# try_mutant.sh <diff> <check> [<check>...]: run the given quick checks against a seeded change.
# Default: on a scratch copy of /repo (headers + patch) selected with VERIF_REPO, so that /repo itself is never touched
# while background runs use it.  With MUTANT_IN_PLACE=1: git apply on /repo, run, git checkout (always undone).
DIFF=$1; shift
if [ "${MUTANT_IN_PLACE:-0}" = 1 ]; then
  cd /repo && git apply "$DIFF" || { echo APPLY-FAILED; exit 2; }
  trap 'git -C /repo checkout -q -- .' EXIT
  export VERIF_REPO=/repo
else
  T=$(mktemp -d /tmp/mutrepo.XXXXXX)
  trap 'rm -rf "$T"' EXIT
  cp -r /repo/include /repo/CMakeLists.txt "$T"/ 2>/dev/null
  (cd "$T" && patch -s -p1 < "$DIFF") || { echo APPLY-FAILED; exit 2; }
  export VERIF_REPO=$T
fi
cd /verif
for c in "$@"; do
  out=$(python3 bin/check "$c" --tier quick 2>&1); rc=$?
  echo "== $c rc=$rc $(echo "$out" | grep -c '^VIOLATION') violations"
  echo "$out" | grep -E "signature:" | head -4
done
