// Operation windows (malloc / allocator-call accounting, exception classification, fault arming), single-pass
// input source and range sources of every iterator category -- shared by the vector and set explorers.  C++17.
#pragma once
#include <algorithm>
#include <cstdio>
#include <cstdlib>
#include <deque>
#include <forward_list>
#include <iterator>
#include <list>
#include <stdexcept>
#include <string>
#include <vector>

#include "allocs.hpp"
#include "elems.hpp"

extern "C" int __sanitizer_install_malloc_and_free_hooks(void (*malloc_hook)(const volatile void *, size_t),
                                                         void (*free_hook)(const volatile void *));

namespace rt {

// ---- operation window -----------------------------------------------------------------------------------------
struct WinT {
  bool in = false;
  long mallocs = 0;      // heap requests seen by ASan's hook while the window is open
  long alloc_calls0 = 0; // ledger allocator calls at window start
  long alloc_calls = 0;
  bool exc = false;
  int exc_kind = 0;  // 1 out_of_range 2 overflow_error 3 bad_alloc 4 injected 5 other std 6 unknown
  long saved_fault = 0;
};
inline WinT &W() {
  static WinT w;
  return w;
}
inline void malloc_hook(const volatile void *, size_t) {
  if (W().in) ++W().mallocs;
}
inline void free_hook(const volatile void *) {}
inline void install_hooks() { __sanitizer_install_malloc_and_free_hooks(malloc_hook, free_hook); }

inline long g_cur_fault = 0;    // fault index armed for the window of the operation being applied (0 = none)
inline bool g_final = false;    // the operation being applied is the checked transition (not the replayed prefix)
inline long g_last_events = 0;  // fault points passed by the last window (E of the fault enumerator)
/// an injected fault (element exception or bad_alloc) ended the last window
inline bool faulted();

inline void win_begin() {
  WinT &w = W();
  w.mallocs = 0;
  w.exc = false;
  w.exc_kind = 0;
  w.alloc_calls0 = vf::AL().calls();
  vf::L().events = 0;
  vf::L().fault_at = g_cur_fault;
  w.in = true;
}
inline void win_end() {
  WinT &w = W();
  w.in = false;
  g_last_events = vf::L().events;
  vf::L().fault_at = 0;
  w.alloc_calls = vf::AL().calls() - w.alloc_calls0;
}
// Run f inside a window, classifying any exception.
template <class F>
inline void win(F &&f) {
  win_begin();
  try {
    f();
  } catch (const std::out_of_range &) {
    W().exc = true;
    W().exc_kind = 1;
  } catch (const std::overflow_error &) {
    W().exc = true;
    W().exc_kind = 2;
  } catch (const std::bad_alloc &) {
    W().exc = true;
    W().exc_kind = 3;
  } catch (const vf::InjectedFault &) {
    W().exc = true;
    W().exc_kind = 4;
  } catch (const std::exception &) {
    W().exc = true;
    W().exc_kind = 5;
  } catch (...) {
    W().exc = true;
    W().exc_kind = 6;
  }
  win_end();
}

inline bool faulted() { return g_cur_fault > 0 && W().exc && (W().exc_kind == 3 || W().exc_kind == 4); }

// ---- single-pass input source ---------------------------------------------------------------------------------
template <class U>
struct SPState {
  const U *data;
  int n;
  int cur;
  bool overrun;
};
template <class U>
struct SinglePass {
  typedef std::input_iterator_tag iterator_category;
  typedef U value_type;
  typedef std::ptrdiff_t difference_type;
  typedef const U *pointer;
  typedef const U &reference;
  SPState<U> *st;  // null = end sentinel
  SinglePass() : st(nullptr) {}
  explicit SinglePass(SPState<U> *s) : st(s) {}
  bool at_end() const { return !st || st->cur >= st->n; }
  const U &operator*() const {
    if (at_end()) {
      if (st) st->overrun = true;
      return st->data[st->n];  // one spare sentinel element is always present
    }
    return st->data[st->cur];
  }
  SinglePass &operator++() {
    if (st) {
      if (st->cur >= st->n) st->overrun = true;
      else ++st->cur;
    }
    return *this;
  }
  SinglePass operator++(int) {
    SinglePass c = *this;
    ++*this;
    return c;
  }
  friend bool operator==(const SinglePass &a, const SinglePass &b) { return a.at_end() == b.at_end(); }
  friend bool operator!=(const SinglePass &a, const SinglePass &b) { return !(a == b); }
};

enum Src { S_PTR = 0, S_STDVEC, S_DEQUE, S_LIST, S_FWD, S_INPUT, S_MOVE_PTR, S_MOVE_LIST, S_COUNT };
/// vectors only: a contiguous range whose value_type is NOT T but converts to it (a byte-wise fast path selected on
/// "pointer range of a trivially copyable T" alone would copy the wrong bytes)
constexpr int S_CONV = S_COUNT;
constexpr int S_COUNT_VEC = S_COUNT + 1;
inline const char *src_name(int s) {
  static const char *n[] = {"ptr", "stdvec", "deque", "list", "fwdlist", "input", "move_ptr", "move_list", "conv"};
  return s >= 0 && s < S_COUNT_VEC ? n[s] : "?";
}
template <class T>
struct ConvTo {
  long long pad;  // a different size than most T
  int x;
  operator T() const { return vf::El<T>::make(x); }
};

/// Build a range over the given values with iterator kind `src` and hand (first, last) to f.
template <class T, bool kWithConv = false, class F>
inline void with_range_t(int src, const std::vector<int> &vals, F &&f) {
  typedef vf::El<T> E;
  if constexpr (kWithConv) {
    if (src == S_CONV) {
      std::vector<ConvTo<T> > a;
      for (int x : vals) a.push_back(ConvTo<T>{0x5151515151515151LL, x});
      a.push_back(ConvTo<T>{0, -555});
      f(static_cast<const ConvTo<T> *>(a.data()), static_cast<const ConvTo<T> *>(a.data() + vals.size()));
      return;
    }
  }
  switch (src) {
    case S_PTR:
    case S_MOVE_PTR:
    case S_INPUT: {
      // raw array (no std::vector<T> so that non-default-constructible spare slot handling stays simple)
      std::vector<T> a;
      a.reserve(vals.size() + 1);
      for (int x : vals) a.push_back(E::make(x));
      a.push_back(E::make(-555));  // sentinel read only by a buggy over-run
      T *b = a.data();
      T *e = a.data() + vals.size();
      if (src == S_PTR) f(static_cast<const T *>(b), static_cast<const T *>(e));
      else if (src == S_MOVE_PTR) f(std::make_move_iterator(b), std::make_move_iterator(e));
      else {
        SPState<T> st{b, (int)vals.size(), 0, false};
        f(SinglePass<T>(&st), SinglePass<T>());
        if (st.overrun) vf::fail("C01", "single-pass range was read past its end (range traversed more than once)");
      }
      break;
    }
    case S_STDVEC: {
      std::vector<T> a;
      for (int x : vals) a.push_back(E::make(x));
      f(a.begin(), a.end());
      break;
    }
    case S_DEQUE: {
      std::deque<T> a;
      for (int x : vals) a.push_back(E::make(x));
      f(a.begin(), a.end());
      break;
    }
    case S_LIST:
    case S_MOVE_LIST: {
      std::list<T> a;
      for (int x : vals) a.push_back(E::make(x));
      if (src == S_LIST) f(a.begin(), a.end());
      else f(std::make_move_iterator(a.begin()), std::make_move_iterator(a.end()));
      break;
    }
    case S_FWD: {
      std::forward_list<T> a;
      for (auto it = vals.rbegin(); it != vals.rend(); ++it) a.push_front(E::make(*it));
      f(a.begin(), a.end());
      break;
    }
    default:
      break;
  }
}

}  // namespace rt
