// E1 -- explicit-state breadth-first exploration of one vector instantiation (selected by -DCFG_*).
//
// state      = pool of K real containers, identified by a canonical key, stored with the shortest history reaching it
// transition = one public operation (vec_ops.hpp) executed on FRESH objects after replaying that history
// oracle     = reference model (std::vector<int> + "entitled to inline storage" bit) + ledgers + ASan
//
//   explore_vec --explore --K 1 --L 4 [--reloc 0|1|2] [--fault] [--deadline s] [--crumb file] [--opts ...]
//   explore_vec --replay "<op> <op> ..." [--reloc n] [--faultk k]      (last op is the checked transition)
#include <sanitizer/asan_interface.h>
#include <fcntl.h>
#include <sys/mman.h>
#include <unistd.h>

#include <csignal>
#include <chrono>
#include <map>
#include <set>
#include <unordered_map>

#include "vec_apply.hpp"

using namespace ops;

static char *g_crumb = nullptr;
static const size_t CRUMB_SZ = 8192;
static int g_reloc = 0;

static double now_s() {
  using namespace std::chrono;
  return duration<double>(steady_clock::now().time_since_epoch()).count();
}

static void crumb(const std::vector<Op> &h, const Op *op, long faultk) {
  if (!g_crumb) return;
  std::string s = hist_str(h);
  if (op) {
    if (!s.empty()) s += ' ';
    s += op_str(*op);
  }
  s += "\nfaultk=" + std::to_string(faultk) + "\n";
  if (s.size() >= CRUMB_SZ) s.resize(CRUMB_SZ - 1);
  std::memcpy(g_crumb, s.c_str(), s.size() + 1);
}

// ---- pool life cycle --------------------------------------------------------------------------------------------
static void pool_init(World &w) {
  for (int i = 0; i < w.K; ++i) {
    Slot &s = w.slot[i];
    s.cur = 0;
    ASAN_UNPOISON_MEMORY_REGION(s.buf, sizeof s.buf);
    ::new (s.raw()) V();
    s.alive = true;
    s.birth = s.v().data();
    w.m[i].v.clear();
    w.m[i].ent = true;
  }
}
static void pool_destroy(World &w) {
  for (int i = 0; i < w.K; ++i)
    if (w.slot[i].alive) {
      w.slot[i].v().~V();
      w.slot[i].alive = false;
    }
}

/// C14: move every container that claims trivially_relocatable to another address by raw byte copy; the source
/// bytes are poisoned and abandoned (no destructor).
static void relocate_all(World &w) {
  if constexpr (amc::is_trivially_relocatable<V>::value) {
    for (int i = 0; i < w.K; ++i) {
      Slot &s = w.slot[i];
      ASAN_UNPOISON_MEMORY_REGION(s.other(), sizeof(V));
      std::memcpy(s.other(), s.raw(), sizeof(V));
      std::memset(s.raw(), 0xEE, sizeof(V));
      ASAN_POISON_MEMORY_REGION(s.raw(), sizeof(V));  // the source is abandoned: any later access to it is a defect
      s.cur ^= 1;
      s.birth = s.v().data();  // a relocated FixedCapacityVector legitimately has a new begin()
    }
  }
}

// ---- canonical key ----------------------------------------------------------------------------------------------
static std::vector<std::string> slot_keys(World &w) {
  std::vector<int> all;
  // joint rank pattern of the NON-ZERO values; zero stays distinguished because value-initialised elements
  // (resize(n), append(n), Vector(n)) are always zero, so "equals a future value-initialised element" is observable
  for (int i = 0; i < w.K; ++i)
    for (const T &e : w.slot[i].v())
      if (E::val(e) != 0) all.push_back(E::val(e));
  std::sort(all.begin(), all.end());
  all.erase(std::unique(all.begin(), all.end()), all.end());
  std::vector<std::string> parts;
  for (int i = 0; i < w.K; ++i) {
    V &v = w.slot[i].v();
    char buf[96];
    std::snprintf(buf, sizeof buf, "s%ldc%ldi%de%dr%ld,%ld[", (long)v.size(), (long)v.capacity(), (int)is_inline(v),
                  (int)w.m[i].ent, RawWords<V>::a(v), RawWords<V>::b(v));
    std::string s = buf;
    for (const T &e : v) {
      if (E::val(e) == 0) {
        s += '0';
        continue;
      }
      int r = (int)(std::lower_bound(all.begin(), all.end(), E::val(e)) - all.begin());
      s += (char)('a' + (r < 26 ? r : 25));
    }
    s += ']';
    parts.push_back(s);
  }
  return parts;
}
static std::string key_of(World &w) {
  std::vector<std::string> parts = slot_keys(w);
  std::sort(parts.begin(), parts.end());
  std::string k;
  for (auto &p : parts) k += p;
  return k;
}
/// Destructive probe appended to the key of the state a run ends in (the pool is destroyed right afterwards): what
/// clear() and then shrink_to_fit() leave behind (size, capacity, inline?) exposes size/capacity words or buffers that
/// are out of step although every observer agrees.  A function of the visible key for a correct implementation.
static std::string probe_of(World &w) {
  std::vector<std::string> parts = slot_keys(w);
  for (int i = 0; i < w.K; ++i) {
    V &v = w.slot[i].v();
    char buf[96];
    v.clear();
    long s1 = (long)v.size(), c1 = (long)v.capacity();
    int i1 = (int)is_inline(v);
    bool threw = false;
    try {
      v.shrink_to_fit();
    } catch (...) {
      threw = true;
    }
    std::snprintf(buf, sizeof buf, "~%ld,%ld,%d,%ld,%ld,%d,%d;", s1, c1, i1, (long)v.size(), (long)v.capacity(), (int)is_inline(v), (int)threw);
    parts[i] += buf;
  }
  std::sort(parts.begin(), parts.end());
  std::string k;
  for (auto &p : parts) k += p;
  return k;
}
static std::string strip_probe(const std::string &k) {
  std::string r;
  bool skip = false;
  for (char c : k) {
    if (c == '~') skip = true;
    if (!skip) r += c;
    if (c == ';') skip = false;
  }
  return r;
}

// ---- observers ----------------------------------------------------------------------------------------------------
static uint64_t g_digest;
static void dig(long x) { g_digest = (g_digest ^ (uint64_t)x) * 1099511628211ULL; }

static void observe(World &w, const char *tags) {
  long live_expected = 0;
  std::vector<long> idents;
  for (int i = 0; i < w.K; ++i) {
    V &v = w.slot[i].v();
    const V &cv = v;
    const std::vector<int> &mv = w.m[i].v;
    const long sz = (long)v.size();
    dig(sz);
    dig((long)v.capacity());
    if (sz != (long)mv.size()) {
      vf::fail(tags, "slot %d: size %ld, std::vector has %zu", i, sz, mv.size());
      live_expected += sz * vf::ObjsPer<T>::value;
      continue;
    }
    live_expected += sz * vf::ObjsPer<T>::value;
    if (v.empty() != mv.empty()) vf::fail(tags, "slot %d: empty() disagrees", i);
    if ((cv.end() - cv.begin()) != sz) vf::fail(tags, "slot %d: end()-begin() != size()", i);
    long x = 0;
    bool bad = false;
    for (auto it = cv.begin(); it != cv.end(); ++it, ++x) {
      const char *why = nullptr;
      // a torn, stale or moved-from visible element is also not the element std::vector holds there
      if (!E::sane(*it, &why)) vf::fail("C01,C02", "slot %d element %ld: %s", i, x, why);
      int val = E::val(*it);
      dig(val);
      if (val != mv[x]) {
        vf::fail(tags, "slot %d element %ld is %d, std::vector has %d", i, x, val, mv[x]);
        bad = true;
        break;
      }
      if (E::tracked) idents.push_back(E::ident(*it));
    }
    if (bad) continue;
    x = sz;
    for (auto it = cv.rbegin(); it != cv.rend(); ++it) {
      --x;
      if (x < 0 || E::val(*it) != mv[x]) {
        vf::fail(tags, "slot %d: reverse iteration disagrees at %ld", i, x);
        bad = true;
        break;
      }
    }
    if (bad) continue;
    if (x != 0) vf::fail(tags, "slot %d: reverse iteration visited the wrong number of elements", i);
    for (long q = 0; q < sz + 2; ++q) {
      bool threw = false;
      int got = 0;
      try {
        got = E::val(cv.at((typename V::size_type)q));
      } catch (const std::out_of_range &) {
        threw = true;
      }
      if (q < sz) {
        if (threw || got != mv[q]) vf::fail(tags, "slot %d: at(%ld) wrong", i, q);
        if (E::val(cv[(typename V::size_type)q]) != mv[q]) vf::fail(tags, "slot %d: operator[](%ld) wrong", i, q);
      } else if (!threw)
        vf::fail("C08,C01", "slot %d: at(%ld) with size %ld did not throw out_of_range", i, q, sz);
    }
    {
      // indices at the top of the size_type and at its sign boundary (a bounds check must not go through a narrower or
      // a signed type), through both overloads
      typedef typename V::size_type VST;
      typedef typename std::make_unsigned<VST>::type UST;
      const VST mx = std::numeric_limits<VST>::max();
      const VST probes[] = {mx, (VST)(mx - 1), (VST)(((UST)1 << (sizeof(VST) * 8 - 1)) - (std::is_signed<VST>::value ? 1 : 0)), (VST)(mx / 2 + 1)};
      for (VST q : probes) {
        if ((unsigned long long)q < (unsigned long long)sz) continue;
        for (int form = 0; form < 2; ++form) {
          bool threw = false;
          try {
            if (form == 0) (void)cv.at(q);
            else (void)const_cast<V &>(cv).at(q);
          } catch (const std::out_of_range &) {
            threw = true;
          }
          if (!threw) vf::fail("C08,C01", "slot %d: %sat(%llu) with size %ld did not throw out_of_range", i, form ? "non-const " : "", (unsigned long long)q, sz);
        }
      }
    }
    if (sz > 0) {
      if (E::val(cv.front()) != mv.front() || E::val(cv.back()) != mv.back()) vf::fail(tags, "slot %d: front()/back() wrong", i);
      if (cv.data() != &cv.front()) vf::fail(tags, "slot %d: data() != &front()", i);
    }
    {
      // the non-const and c-prefixed spellings designate the same elements as the const ones
      V &nv = const_cast<V &>(cv);
      if (nv.data() != cv.data() || nv.begin() != cv.begin() || nv.end() != cv.end() || cv.cbegin() != cv.begin() || cv.cend() != cv.end())
        vf::fail(tags, "slot %d: non-const / c-prefixed begin, end or data disagree with the const ones", i);
      if (nv.rbegin().base() != nv.end() || nv.rend().base() != nv.begin() || cv.crbegin().base() != cv.end() || cv.crend().base() != cv.begin() ||
          cv.rbegin().base() != cv.end() || cv.rend().base() != cv.begin())
        vf::fail(tags, "slot %d: reverse iterators are not based on begin() / end()", i);
      if (sz > 0 && (&nv.front() != &cv.front() || &nv.back() != &cv.back() || &nv.back() != cv.data() + (sz - 1)))
        vf::fail(tags, "slot %d: non-const front() / back() designate other elements than the const ones", i);
      for (long q = 0; q < sz; ++q)
        if (&nv.at((typename V::size_type)q) != cv.data() + q || &nv[(typename V::size_type)q] != cv.data() + q || &cv.at((typename V::size_type)q) != cv.data() + q)
          vf::fail(tags, "slot %d: at(%ld) / operator[] do not designate data() + %ld", i, q, q);
      if ((long)(cv.end() - cv.begin()) != sz) vf::fail(tags, "slot %d: end() - begin() is %ld, size %ld", i, (long)(cv.end() - cv.begin()), sz);
    }
    for (int j = 0; j < w.K; ++j) {
      const V &o = w.slot[j].v();
      const std::vector<int> &mo = w.m[j].v;
      if ((long)o.size() != (long)mo.size()) continue;
      int bits = (cv == o) | (cv != o) << 1 | (cv < o) << 2 | (cv <= o) << 3 | (cv > o) << 4 | (cv >= o) << 5;
      int want;
      if constexpr (E::tracked) {
        want = (mv == mo) | (mv != mo) << 1 | (mv < mo) << 2 | (mv <= mo) << 3 | (mv > mo) << 4 | (mv >= mo) << 5;
      } else {
        // the reference is std::vector<T> itself (element comparison of T, e.g. signed bytes with negative values)
        std::vector<T> ra, rb;
        for (int x : mv) ra.push_back(E::make(x));
        for (int x : mo) rb.push_back(E::make(x));
        want = (ra == rb) | (ra != rb) << 1 | (ra < rb) << 2 | (ra <= rb) << 3 | (ra > rb) << 4 | (ra >= rb) << 5;
      }
      dig(bits);
      if (bits != want) vf::fail(tags, "comparison operators between slots %d and %d give %d, std::vector gives %d", i, j, bits, want);
    }
  }
  if (E::tracked) {
    if (vf::L().live() != live_expected)
      vf::fail("C02", "%d element objects alive, containers hold %ld (leak or lost element)", vf::L().live(), live_expected);
    std::sort(idents.begin(), idents.end());
    if (std::adjacent_find(idents.begin(), idents.end()) != idents.end())
      vf::fail("C02", "two visible elements share one identity (bitwise duplicate)");
  }
}

// ---- one execution --------------------------------------------------------------------------------------------------

// watchdog: one execution (history + operation) that does not finish within 30 s is a hang (a corrupted container can
// send an algorithm into an endless loop); it is reported like a crash, with the breadcrumb naming the execution
static void on_alarm(int) {
  static const char msg[] = "\nSUMMARY: watchdog: execution did not terminate within 30 s (hang)\n";
  ssize_t r = write(2, msg, sizeof msg - 1);
  (void)r;
  _exit(97);
}

struct RunResult {
  std::string key_before, key_after;
  std::string key_full;  // key of the final state of the run including the destructive probe
  uint64_t digest = 0;
  int nfail = 0;
  bool prefix_failed = false;
  long events = 0;
};

static const char *tags_for(int k) {
  switch (k) {
    case PUSH_ALIAS: case EMPLACE_BACK_ALIAS: case INS_ALIAS: case INS_N_ALIAS: case EMPLACE_ALIAS:
    case RESIZE_ALIAS: case ASSIGN_ALIAS: case APPEND_ALIAS:
      return "C01,C10";
    default:
      return "C01";
  }
}

static World g_w;
static bool g_fault_seen = false;

/// Replay hist on fresh objects, then (if op) execute op as the checked transition.  Enabled ops of the reached
/// state are written to *enabled when requested (only meaningful without op).
static RunResult run_once(const std::vector<Op> &hist, const Op *op, int K, int L, std::vector<Op> *enabled, const Opts &o) {
  RunResult r;
  alarm(30);
  World &w = g_w;
  w.K = K;
  w.L = L;
  vf::L().reset();
  vf::AL().reset();
  g_digest = 1469598103934665603ULL;
  g_final = false;
  pool_init(w);
  for (const Op &h : hist) {
    apply(w, h);
    if (g_reloc == 2) relocate_all(w);
  }
  if (vf::L().nfail) r.prefix_failed = true;
  // failures of observational oracles on the prefix were reported when that transition was explored
  vf::L().nfail = 0;
  vf::L().fail_total = 0;
  r.key_before = key_of(w);
  if (enabled) enumerate(w, o, *enabled);
  if (op) {
    // C14: run every const observer BEFORE the relocation as well (anything a const member might cache is then set)
    if (g_reloc >= 1) observe(w, "C14");
    if (g_reloc >= 1) relocate_all(w);
    g_final = true;
    g_overlimit = false;
    g_last_events = 0;
    g_fault_seen = false;
    apply(w, *op);
    g_final = false;
    g_fault_seen = op->f > 0 && vf::L().faults_thrown > 0;  // thrown; the callee may have swallowed it (std::vector::shrink_to_fit)
    r.events = g_last_events;
    observe(w, op->f ? "C09" : g_overlimit ? "C08" : tags_for(op->k));
    r.key_after = key_of(w);
  }
  {
    const int nf = vf::L().nfail;
    vf::L().quiet = true;  // the probe is not an oracle
    r.key_full = probe_of(w);
    vf::L().quiet = false;
    vf::L().nfail = nf;
  }
  pool_destroy(w);
  if (E::tracked && vf::L().live() != 0) vf::fail("C02", "%d element objects still alive after all containers were destroyed", vf::L().live());
  if (kLedgerAlloc && vf::AL().n != 0) vf::fail("C06", "%d blocks outstanding after all containers were destroyed", vf::AL().n);
  r.digest = g_digest;
  r.nfail = vf::L().nfail;
  alarm(0);
  return r;
}

static std::string jesc(const std::string &s) {
  std::string r;
  for (char c : s) {
    if (c == '"' || c == '\\') { r += '\\'; r += c; }
    else if (c == '\n') r += "\\n";
    else if ((unsigned char)c < 32) r += ' ';
    else r += c;
  }
  return r;
}


/// A failed oracle stops the expansion of the successor state when model and code may have diverged (contents,
/// lifetimes, crashes).  Failures of purely observational oracles (allocation counting, allocator protocol, capacity /
/// address rules) are recorded but the successor is still explored: their consequences for other properties stay visible.
static bool failure_is_fatal() {
  for (int f = 0; f < vf::L().nfail; ++f) {
    std::string t = vf::L().fails[f].tags;
    size_t a = 0;
    while (a <= t.size()) {
      size_t b = t.find(',', a);
      if (b == std::string::npos) b = t.size();
      std::string tag = t.substr(a, b - a);
      if (!(tag == "C05" || tag == "C06" || tag == "C07" || tag == "C18")) return true;
      a = b + 1;
    }
  }
  return vf::L().fail_total > vf::LedgerT::FAIL_CAP;
}

struct State {
  int parent;
  Op op;
  int depth;
  int faults;  // injected faults on the stored history
};

int main(int argc, char **argv) {
  install_hooks();
  std::signal(SIGALRM, on_alarm);
  int K = 1, L = 4;
  bool explore = false;
  std::string replay;
  double deadline = 1e18;
  long maxstates = 50000000;
  int merge_check = 0;  // self-check of the state abstraction: number of merge events whose futures are compared
  Opts o;
  long faultk = 0;
  int fault_bound = 0;  // 0 = no fault injection; n = at most n injected faults per history
  for (int a = 1; a < argc; ++a) {
    std::string s = argv[a];
    auto nxt = [&] { return a + 1 < argc ? std::string(argv[++a]) : std::string(); };
    if (s == "--explore") explore = true;
    else if (s == "--replay") replay = nxt();
    else if (s == "--K") K = std::atoi(nxt().c_str());
    else if (s == "--L") L = std::atoi(nxt().c_str());
    else if (s == "--reloc") g_reloc = std::atoi(nxt().c_str());
    else if (s == "--deadline") deadline = now_s() + std::atof(nxt().c_str());
    else if (s == "--maxstates") maxstates = std::atol(nxt().c_str());
    else if (s == "--faultk") faultk = std::atol(nxt().c_str());
    else if (s == "--fault") fault_bound = std::atoi(nxt().c_str());
    else if (s == "--few-ranges") o.ranges_all = false;
    else if (s == "--no-menu") o.menu = false;
    else if (s == "--no-alias") o.alias = false;
    else if (s == "--no-ctors") o.ctors = false;
    else if (s == "--no-overlimit") o.overlimit = false;
    else if (s == "--merge-check") merge_check = std::atoi(nxt().c_str());
    else if (s == "--crumb") {
      std::string p = nxt();
      int fd = open(p.c_str(), O_RDWR | O_CREAT | O_TRUNC, 0644);
      if (fd >= 0 && ftruncate(fd, CRUMB_SZ) == 0) {
        void *m = mmap(nullptr, CRUMB_SZ, PROT_READ | PROT_WRITE, MAP_SHARED, fd, 0);
        if (m != MAP_FAILED) g_crumb = static_cast<char *>(m);
      }
    }
  }
#ifndef AMC_NONSTD_FEATURES
  o.extras = false;
#endif
  if (K > MAXK) K = MAXK;
  if (L > MAXL - 4) L = MAXL - 4;

  // static part of C14: a container that stores non-relocatable elements inline must not claim the trait
  const bool claims = amc::is_trivially_relocatable<V>::value;
  const bool may_claim = kDyn && N == 0 ? true : vf::expect_reloc<T>::value;
  std::string static_fail;
  if (claims && !may_claim) static_fail = "container claims trivially_relocatable although its elements are stored inline and are not relocatable";

  if (!replay.empty()) {
    std::vector<Op> h;
    std::stringstream ss(replay);
    std::string t;
    while (ss >> t) {
      Op op;
      if (!op_parse(t, op)) {
        std::fprintf(stderr, "bad op %s\n", t.c_str());
        return 2;
      }
      h.push_back(op);
    }
    if (h.empty()) return 2;
    Op last = h.back();
    h.pop_back();
    RunResult r = run_once(h, &last, K, L, nullptr, o);
    std::printf("instantiation: %s N=%d elem=%s st=%zu alloc=%s\n", kFlavourName, N, E::name(), sizeof(ST), kAllocName);
    std::printf("history: %s\nop: %s\nkey_before: %s\nkey_after: %s\ndigest: %llx\n", hist_str(h).c_str(), op_str(last).c_str(),
                r.key_before.c_str(), r.key_after.c_str(), (unsigned long long)r.digest);
    for (int f = 0; f < vf::L().nfail; ++f) std::printf("FAIL [%s] %s\n", vf::L().fails[f].tags, vf::L().fails[f].msg);
    if (!static_fail.empty()) std::printf("FAIL [C14] %s\n", static_fail.c_str());
    return (r.nfail || !static_fail.empty()) ? 1 : 0;
  }
  if (!explore) {
    std::fprintf(stderr, "need --explore or --replay\n");
    return 2;
  }

  // ---- BFS to the fixpoint inside the size bound ----------------------------------------------------------------
  std::unordered_map<std::string, int> seen;
  std::vector<State> states;
  std::vector<std::string> keys;
  auto history = [&](int id) {
    std::vector<Op> h;
    while (id > 0) {
      h.push_back(states[id].op);
      id = states[id].parent;
    }
    std::reverse(h.begin(), h.end());
    return h;
  };

  // multiset of successor keys of the state reached by history H (for the merge self-check)
  auto succ_keys = [&](const std::vector<Op> &H) {
    std::vector<std::string> ks;
    std::vector<Op> en;
    crumb(H, nullptr, 0);
    run_once(H, nullptr, K, L, &en, o);
    std::vector<Op> ops2 = en;
    for (const Op &op : ops2) {
      crumb(H, &op, 0);
      RunResult rr = run_once(H, &op, K, L, nullptr, o);
      ks.push_back(rr.nfail ? std::string("FAIL") : rr.key_full);
    }
    std::sort(ks.begin(), ks.end());
    return ks;
  };
  long merges_checked = 0;
  {
    std::vector<Op> none;
    RunResult r0 = run_once(none, nullptr, K, L, nullptr, o);
    seen[r0.key_full] = 0;
    states.push_back(State{-1, Op(), 0, 0});
    keys.push_back(r0.key_full);
  }
  long transitions = 0, viol_total = 0, fault_transitions = 0, max_events = 0;
  std::set<uint64_t> digests;
  std::map<std::string, long> per_kind;
  struct VRec {
    std::string tags, msg, hist, op, key;
  };
  std::vector<VRec> viols;
  std::set<std::string> viol_sigs;
  std::vector<std::string> samples;
  bool complete = true;
  int maxdepth = 0;
  std::string nondet;
  std::vector<Op> enabled;
  for (size_t cur = 0; cur < states.size(); ++cur) {
    if (now_s() > deadline || (long)states.size() > maxstates) {
      complete = false;
      break;
    }
    std::vector<Op> h = history((int)cur);
    crumb(h, nullptr, 0);
    RunResult rp = run_once(h, nullptr, K, L, &enabled, o);
    if (rp.key_before != strip_probe(keys[cur])) {
      nondet = "canon-on-replay failed for state " + keys[cur] + " via " + hist_str(h) + " got " + rp.key_before;
      break;
    }
    std::vector<Op> ops_here = enabled;
    for (const Op &op : ops_here) {
      crumb(h, &op, 0);
      RunResult r = run_once(h, &op, K, L, nullptr, o);
      ++transitions;
      ++per_kind[kind_name(op.k)];
      digests.insert(r.digest);
      if (r.key_before != strip_probe(keys[cur])) {
        nondet = "prefix replay diverged at state " + keys[cur] + " via " + hist_str(h);
        break;
      }
      if (samples.size() < 6 && (transitions % 9973) == 1) samples.push_back(hist_str(h) + " | " + op_str(op) + " -> " + r.key_after);
      if (r.nfail) {
        ++viol_total;
        std::string tags_seen;  // the first failure of every distinct tag set (an early observational failure must not hide a later one)
        for (int f = 0; f < vf::L().nfail; ++f) {
          if (tags_seen.find(std::string("|") + vf::L().fails[f].tags + "|") != std::string::npos) continue;
          tags_seen += std::string("|") + vf::L().fails[f].tags + "|";
          std::string sig = std::string(kind_name(op.k)) + "|" + vf::L().fails[f].tags + "|" + vf::L().fails[f].msg;
          // strip digits so that thousands of instances of one defect share a signature
          std::string norm;
          for (char c : sig) norm += (c >= '0' && c <= '9') ? '#' : c;
          if (viol_sigs.insert(norm).second && viols.size() < 200)
            viols.push_back(VRec{vf::L().fails[f].tags, vf::L().fails[f].msg, hist_str(h), op_str(op), keys[cur]});
        }
        if (failure_is_fatal()) continue;  // the successor is not expanded (model and code may have diverged)
      }
      auto it = seen.find(r.key_full);
      if (it != seen.end() && merges_checked < merge_check && it->second != (int)cur && !r.nfail) {
        // two different histories were merged into one state: their futures must agree (soundness of the key)
        std::vector<Op> h2 = h;
        h2.push_back(op);
        std::vector<Op> h1 = history(it->second);
        if (hist_str(h1) != hist_str(h2)) {
          ++merges_checked;
          if (succ_keys(h1) != succ_keys(h2)) {
            nondet = "state abstraction unsound: histories [" + hist_str(h1) + "] and [" + hist_str(h2) + "] share key " + r.key_full + " but have different successor keys";
            break;
          }
        }
      }
      if (it == seen.end()) {
        int id = (int)states.size();
        seen.emplace(r.key_full, id);
        states.push_back(State{(int)cur, op, states[cur].depth + 1, states[cur].faults});
        keys.push_back(r.key_full);
        maxdepth = std::max(maxdepth, states[cur].depth + 1);
      }
      // ---- fault enumeration: the k-th throwing event of this operation throws, for every k --------------------
      if (fault_bound > 0 && states[cur].faults < fault_bound) {
        const long E = r.events;
        max_events = std::max(max_events, E);
        for (long k = 1; k <= E; ++k) {
          Op fop = op;
          fop.f = (int)k;
          crumb(h, &fop, k);
          RunResult rf = run_once(h, &fop, K, L, nullptr, o);
          ++transitions;
          ++fault_transitions;
          digests.insert(rf.digest);
          if (!g_fault_seen) {
            nondet = "fault " + std::to_string(k) + " of " + std::to_string(E) + " did not fire in " + op_str(fop) + " after " + hist_str(h);
            break;
          }
          if (rf.nfail) {
            ++viol_total;
            std::string sig = std::string(kind_name(op.k)) + "|fault|" + vf::L().fails[0].tags + "|" + vf::L().fails[0].msg;
            std::string norm;
            for (char c : sig) norm += (c >= '0' && c <= '9') ? '#' : c;
            if (viol_sigs.insert(norm).second && viols.size() < 200)
              viols.push_back(VRec{vf::L().fails[0].tags, vf::L().fails[0].msg, hist_str(h), op_str(fop), keys[cur]});
            continue;
          }
          if (seen.find(rf.key_full) == seen.end()) {
            seen.emplace(rf.key_full, (int)states.size());
            states.push_back(State{(int)cur, fop, states[cur].depth + 1, states[cur].faults + 1});
            keys.push_back(rf.key_full);
            maxdepth = std::max(maxdepth, states[cur].depth + 1);
          }
        }
        if (!nondet.empty()) break;
      }
    }
    if (!nondet.empty()) break;
  }
  if (samples.empty() && states.size() > 1) samples.push_back(hist_str(history((int)states.size() - 1)));

  std::printf("{\"instantiation\":{\"flavour\":\"%s\",\"N\":%d,\"elem\":\"%s\",\"cat\":\"%s\",\"size_type_bytes\":%zu,\"size_type_signed\":%d,\"alloc\":\"%s\",\"std\":%ld,\"nonstd\":%d},\n",
              kFlavourName, N, E::name(), E::cat(), sizeof(ST), (int)std::is_signed<ST>::value, kAllocName, (long)__cplusplus,
#ifdef AMC_NONSTD_FEATURES
              1
#else
              0
#endif
  );
  std::printf("\"K\":%d,\"L\":%d,\"reloc\":%d,\"states\":%zu,\"transitions\":%ld,\"max_depth\":%d,\"distinct_outcomes\":%zu,\"complete\":%s,\"violating_transitions\":%ld,\"fault_bound\":%d,\"fault_transitions\":%ld,\"max_fault_points_per_op\":%ld,\n",
              K, L, g_reloc, states.size(), transitions, maxdepth, digests.size(), complete ? "true" : "false", viol_total, fault_bound, fault_transitions, max_events);
  std::printf("\"merges_checked\":%ld,\"claims_reloc\":%s,\"static_fail\":\"%s\",\"nondeterminism\":\"%s\",\n", merges_checked, claims ? "true" : "false", jesc(static_fail).c_str(), jesc(nondet).c_str());
  std::printf("\"per_kind\":{");
  bool first = true;
  for (auto &kv : per_kind) {
    std::printf("%s\"%s\":%ld", first ? "" : ",", kv.first.c_str(), kv.second);
    first = false;
  }
  std::printf("},\n\"samples\":[");
  for (size_t x = 0; x < samples.size(); ++x) std::printf("%s\"%s\"", x ? "," : "", jesc(samples[x]).c_str());
  std::printf("],\n\"violations\":[");
  for (size_t x = 0; x < viols.size(); ++x)
    std::printf("%s{\"tags\":\"%s\",\"msg\":\"%s\",\"hist\":\"%s\",\"op\":\"%s\",\"state\":\"%s\"}", x ? ",\n" : "", viols[x].tags.c_str(),
                jesc(viols[x].msg).c_str(), jesc(viols[x].hist).c_str(), viols[x].op.c_str(), jesc(viols[x].key).c_str());
  std::printf("]}\n");
  return 0;
}
