// C15 harness core (no templates): the observation record of one execution, the judge that compares the amc world
// against the reference / std worlds, bookkeeping shared between the forked children and the parent, the JSON report.
// C++11, POSIX.
#pragma once
#include <signal.h>
#include <sys/mman.h>
#include <sys/wait.h>
#include <unistd.h>

#include <cstdarg>
#include <cstdio>
#include <cstdlib>
#include <cstring>
#include <string>
#include <vector>

#include "elems.hpp"
#include "types.hpp"

namespace c15 {

// ---- algorithms ---------------------------------------------------------------------------------------------------
enum Op {
  OP_COPY, OP_COPY_N, OP_MOVE, OP_MOVE_N, OP_RELOC, OP_RELOC_N,  // source range -> raw destination
  OP_DEF, OP_DEF_N, OP_VAL, OP_VAL_N,                            // raw range
  OP_DESTROY, OP_DESTROY_N, OP_DESTROY_AT, OP_DESTROY_AT_ARR,    // live range / object / array
  OP_CAT_VALUE, OP_CAT_DEFAULT, OP_CAT_COPY, OP_CAT_MOVE,        // construct_at(p, int) / (p) / (p, const T&) / (p, T&&)
  OP_CAT_ARR_MOVE, OP_CAT_ARR_COPY, OP_CAT_ARR_DEFAULT,          // construct_at on array types
  OP_RELOC_AT,
  OP_CAT_ARGS,     // construct_at(p, args...) for every shape of argument pack (argforms.hpp)
  OP_VEC_EMPLACE,  // the same packs through emplace_back / emplace of the library's vectors
  OP_COUNT
};
inline const char *op_name(int op) {
  static const char *const names[OP_COUNT] = {
      "uninitialized_copy", "uninitialized_copy_n", "uninitialized_move", "uninitialized_move_n",
      "uninitialized_relocate", "uninitialized_relocate_n",
      "uninitialized_default_construct", "uninitialized_default_construct_n",
      "uninitialized_value_construct", "uninitialized_value_construct_n",
      "destroy", "destroy_n", "destroy_at", "destroy_at.array",
      "construct_at.value", "construct_at.default", "construct_at.copy", "construct_at.move",
      "construct_at.array_move", "construct_at.array_copy", "construct_at.array_default",
      "relocate_at", "construct_at.args", "vector.emplace"};
  return names[op];
}

// ---- observation of one execution -----------------------------------------------------------------------------------
/// Everything the property lets a caller observe after one call, in one world.  Slots are indices into the source /
/// destination ranges; the slot after the last one handed to the algorithm is a sentinel that must stay untouched.
struct Obs {
  int threw;               // an InjectedFault came out of the call
  // set by the thunk before it calls the algorithm
  int consumes;            // on success the algorithm ends the lifetime of the sources (relocate, destroy)
  int indeterminate;       // constructed values are indeterminate (default-initialised trivial type)
  int no_dest;             // the algorithm has no destination (destroy_at of an array)
  long ret_src, ret_dst;   // returned iterators as offsets (NONE when the algorithm returns none)
  int nsrc, ndst;          // observed slots
  int salive[MAXN], sval[MAXN], smoved[MAXN];
  int dalive[MAXN], dval[MAXN], dmoved[MAXN];
  int tracked;             // destination element type has a ledger: `live` is meaningful
  int src_tracked;         // source element type has a ledger (not so for an int* source feeding a tracked type)
  int live;                // live objects according to the ledger after the call
  long events;             // fault points passed during the call (E of the fault-free run)
  long assigns;            // copy/move ASSIGNMENT operator calls during the call: the destination is raw storage and
                           // the sources are only read, moved from or destroyed, so the standard algorithms make none
  int outside_ok;          // no byte outside [dest, dest+n) was written
  int ledger_fails;        // lifetime violations logged by the elements during the call
  char ledger_msg[200];
  int teardown_ok;         // after the harness destroyed what was alive: nothing live, nothing logged
  char teardown_msg[200];
  enum { NONE = -9999 };

  void clear() {
    std::memset(this, 0, sizeof *this);
    ret_src = ret_dst = NONE;
    outside_ok = teardown_ok = 1;
  }
};

inline long &assign_baseline() {
  static long b = 0;
  return b;
}
inline long assign_count() { return vf::L().n_copy_asg + vf::L().n_move_asg; }
/// Arm fault injection: the k-th fault point from now on throws (k == 0: none).
inline void arm(long k) {
  assign_baseline() = assign_count();
  vf::L().events = 0;
  vf::L().fault_at = k;
}
/// Disarm and return the number of fault points passed since arm().
inline long disarm() {
  vf::L().fault_at = 0;
  return vf::L().events;
}

/// Ledger part of the observation, taken right after the call.
inline void obs_ledger(Obs &o) {
  o.assigns = assign_count() - assign_baseline();
  o.live = vf::L().live();
  o.ledger_fails = static_cast<int>(vf::L().fail_total);
  if (vf::L().nfail > 0) std::snprintf(o.ledger_msg, sizeof o.ledger_msg, "%s", vf::L().fails[0].msg);
}
/// Call after the harness destroyed every object the observation says is alive.
inline void obs_teardown(Obs &o) {
  if (o.ledger_fails) return;  // already reported; the tear-down of a corrupted state only adds noise
  if (vf::L().live() != 0) {
    o.teardown_ok = 0;
    std::snprintf(o.teardown_msg, sizeof o.teardown_msg, "%d object(s) still live after every visible object was destroyed (leak)",
                  vf::L().live());
  } else if (vf::L().fail_total != 0) {
    o.teardown_ok = 0;
    std::snprintf(o.teardown_msg, sizeof o.teardown_msg, "tear-down: %s", vf::L().fails[0].msg);
  }
}

// ---- state shared between parent and forked children --------------------------------------------------------------
struct FailRec {
  char id[160];
  char msg[600];
};
struct Shared {
  enum { FAIL_CAP = 50, PER_OP_CAP = 4, SAMPLE_CAP = 8 };  // per-algorithm cap: a flood from one cannot hide another
  long evaluations;         // judged cases
  long nontrivial;          // judged cases with length > 0 (all distinct: the enumeration has no repetition)
  long world_runs;          // executions of an algorithm (amc + reference + std)
  long by_op[OP_COUNT];
  int cur_op;               // algorithm of the case being executed
  int fails_by_op[OP_COUNT];
  long fail_total;
  int nfails;
  FailRec fails[FAIL_CAP];
  int nsamples;
  char samples[SAMPLE_CAP][160];
  // progress marker, written before anything of a case is executed
  char cur_id[160];
  int cur_tuple;
  long cur_k;
};
inline Shared *&shared() {
  static Shared *s = 0;
  return s;
}
#if defined(__GNUC__)
__attribute__((format(printf, 2, 3)))
#endif
inline void record_failure(const char *id, const char *fmt, ...) {
  Shared &s = *shared();
  ++s.fail_total;
  if (s.nfails >= Shared::FAIL_CAP || ++s.fails_by_op[s.cur_op] > Shared::PER_OP_CAP) return;
  FailRec &f = s.fails[s.nfails++];
  std::snprintf(f.id, sizeof f.id, "%s", id);
  va_list ap;
  va_start(ap, fmt);
  std::vsnprintf(f.msg, sizeof f.msg, fmt, ap);
  va_end(ap);
}

// ---- run configuration --------------------------------------------------------------------------------------------
struct Config {
  int maxlen;
  // --case filter (replay)
  bool filtered;
  std::string f_algo, f_src, f_dst, f_type;
  int f_n;
  long f_k;
  // resume point after a crashed child (per group)
  int start_tuple;
  long start_k;
  int tuple_counter;  // tuples met so far in this group (child side)
  Config() : maxlen(4), filtered(false), f_n(0), f_k(0), start_tuple(0), start_k(0), tuple_counter(0) {}
};
inline Config &cfg() {
  static Config c;
  return c;
}

/// One point of the enumeration apart from the fault index.
struct Tuple {
  int op;
  const char *src, *dst, *type;
  int n;
};
inline void case_id(char *out, size_t cap, const Tuple &t, long k) {
  std::snprintf(out, cap, "%s|%s|%s|%s|n=%d|k=%ld", op_name(t.op), t.src, t.dst, t.type, t.n, k);
}

// ---- the judge ----------------------------------------------------------------------------------------------------
/// Checks that need no second world: the element ledger and the canaries.
inline void judge_absolute(const char *id, const Obs &o, const char *world) {
  if (o.ledger_fails) record_failure(id, "[%s] lifetime violation: %s", world, o.ledger_msg);
  if (!o.outside_ok) record_failure(id, "[%s] memory outside [dest, dest+n) was written", world);
  if (o.assigns)
    record_failure(id, "[%s] %ld assignment operator call(s): the algorithm assigned where it has to construct (operator= on raw storage)",
                   world, o.assigns);
  if (o.tracked) {
    int visible = 0;
    for (int i = 0; i < o.nsrc; ++i) visible += o.src_tracked && o.salive[i];
    for (int i = 0; i < o.ndst; ++i) visible += o.dalive[i];
    if (visible != o.live && !o.ledger_fails)
      record_failure(id, "[%s] ledger counts %d live objects but %d are visible in source+destination (%s)", world, o.live,
                     visible, o.live > visible ? "leak" : "bitwise duplicate");
  }
  if (!o.teardown_ok) record_failure(id, "[%s] %s", world, o.teardown_msg);
}

/// amc world against an oracle world: outcome, returned iterators, every slot.
inline void judge_against(const char *id, const Obs &a, const Obs &r, const char *oracle) {
  if (a.threw != r.threw) {
    record_failure(id, "amc %s, %s %s", a.threw ? "threw" : "returned normally", oracle, r.threw ? "threw" : "returned normally");
    return;
  }
  if (!a.threw) {
    if (a.ret_src != r.ret_src) record_failure(id, "returned source iterator at offset %ld, %s: %ld", a.ret_src, oracle, r.ret_src);
    if (a.ret_dst != r.ret_dst)
      record_failure(id, "returned destination iterator/pointer at offset %ld, %s: %ld", a.ret_dst, oracle, r.ret_dst);
  }
  for (int i = 0; i < a.ndst; ++i) {
    if (a.dalive[i] != r.dalive[i])
      record_failure(id, "dest[%d] is %s after %s, %s: %s", i, a.dalive[i] ? "alive" : "not alive", a.threw ? "the throw" : "return",
                     oracle, r.dalive[i] ? "alive" : "not alive");
    else if (a.dalive[i] && (a.dval[i] != r.dval[i] || a.dmoved[i] != r.dmoved[i]))
      record_failure(id, "dest[%d] = %d%s, %s: %d%s", i, a.dval[i], a.dmoved[i] ? " (moved-from)" : "", oracle, r.dval[i],
                     r.dmoved[i] ? " (moved-from)" : "");
  }
  for (int i = 0; i < a.nsrc; ++i) {
    if (a.salive[i] != r.salive[i])
      record_failure(id, "source[%d] is %s after %s, %s: %s", i, a.salive[i] ? "alive" : "destroyed",
                     a.threw ? "the throw" : "return", oracle, r.salive[i] ? "alive" : "destroyed");
    else if (a.salive[i] && (a.sval[i] != r.sval[i] || a.smoved[i] != r.smoved[i]))
      record_failure(id, "source[%d] = %d%s, %s: %d%s", i, a.sval[i], a.smoved[i] ? " (moved-from)" : "", oracle, r.sval[i],
                     r.smoved[i] ? " (moved-from)" : "");
  }
  if (a.assigns != r.assigns) record_failure(id, "%ld assignment operator call(s), %s: %ld", a.assigns, oracle, r.assigns);
  if (a.tracked && a.live != r.live && !a.ledger_fails)
    record_failure(id, "%d live objects afterwards, %s: %d", a.live, oracle, r.live);
}

/// One world's way to execute a tuple: a driver plus the type-erased thunk that calls the algorithm (see c15.cpp).
typedef void (*AnyFn)();
struct Runner {
  Obs (*drive)(int n, long fault_at, AnyFn thunk);
  AnyFn thunk;
  Obs operator()(int n, long k) const { return drive(n, k, thunk); }
};

/// Explore one tuple: fault index 0 (no fault), then 1..E where E is the number of fault points the fault-free amc
/// execution passed.  Each (tuple, k) is one case: executed in the amc world, the reference world and, when the
/// selected standard has the algorithm, the std world.
inline void explore(const Tuple &t, Runner amc, Runner ref, Runner sd) {
  Config &c = cfg();
  Shared &s = *shared();
  const int tuple_no = c.tuple_counter++;
  if (c.filtered) {
    if (c.f_algo != op_name(t.op) || c.f_src != t.src || c.f_dst != t.dst || c.f_type != t.type || c.f_n != t.n) return;
  }
  if (tuple_no < c.start_tuple) return;
  const long first_k = tuple_no == c.start_tuple ? c.start_k : 0;
  long E = 0;
  for (long k = 0; k <= E; ++k) {
    const bool selected = k >= first_k && (!c.filtered || k == c.f_k);
    if (!selected && k != 0) continue;  // k == 0 always runs: it measures E
    char id[160];
    case_id(id, sizeof id, t, k);
    std::memcpy(s.cur_id, id, sizeof id);
    s.cur_tuple = tuple_no;
    s.cur_op = t.op;
    s.cur_k = k;
    if (selected) {  // counted before execution: a case that kills the child was evaluated all the same
      ++s.evaluations;
      ++s.by_op[t.op];
      if (t.n > 0) ++s.nontrivial;
      if (s.nsamples < Shared::SAMPLE_CAP && (s.evaluations % 397 == 1 || c.filtered)) std::memcpy(s.samples[s.nsamples++], id, sizeof id);
    }
    Obs a = amc(t.n, k);
    ++s.world_runs;
    if (k == 0) {
      E = a.events;
      if (c.filtered && c.f_k > E) E = c.f_k;  // replay of an index beyond E still runs (and says so)
    }
    if (!selected) continue;
    if (k > 0 && !a.threw) record_failure(id, "fault point %ld of %ld was armed but no exception came out of the call", k, E);
    judge_absolute(id, a, "amc");
    Obs r = ref(t.n, k);
    ++s.world_runs;
    judge_absolute(id, r, "HARNESS-reference");  // the reference must be clean itself, else the harness is wrong
    judge_against(id, a, r, "reference");
    if (sd.drive) {
      Obs d = sd(t.n, k);
      ++s.world_runs;
      judge_absolute(id, d, "HARNESS-std");
      judge_against(id, a, d, "std::");
    }
  }
}

// ---- groups: the unit that runs in one forked child ---------------------------------------------------------------
struct Group {
  int op;
  std::string src, type;
  void (*fn)();
};
inline std::vector<Group> &groups() {
  static std::vector<Group> g;
  return g;
}

inline std::string first_report_line(const std::string &err) {
  // the interesting line of a sanitizer report
  const char *keys[] = {"runtime error:", "ERROR: AddressSanitizer", "terminate called", "Assertion"};
  for (size_t k = 0; k < sizeof keys / sizeof *keys; ++k) {
    size_t p = err.find(keys[k]);
    if (p != std::string::npos) {
      size_t b = err.rfind('\n', p);
      b = b == std::string::npos ? 0 : b + 1;
      size_t e = err.find('\n', p);
      return err.substr(b, (e == std::string::npos ? err.size() : e) - b).substr(0, 300);
    }
  }
  return err.substr(0, 200);
}

/// Run one group in forked children.  A child that dies is reported as a failure of the case it had announced, and a
/// new child resumes behind that case, so that one crash hides nothing else.
inline void run_group(const Group &g) {
  Config &c = cfg();
  Shared &s = *shared();
  c.start_tuple = 0;
  c.start_k = 0;
  for (int attempt = 0; attempt < 4096; ++attempt) {
    int fds[2];
    if (pipe(fds) != 0) {
      std::perror("pipe");
      std::exit(2);
    }
    s.cur_id[0] = 0;
    s.cur_tuple = -1;
    std::fflush(stdout);
    pid_t pid = fork();
    if (pid < 0) {
      std::perror("fork");
      std::exit(2);
    }
    if (pid == 0) {
      close(fds[0]);
      dup2(fds[1], 2);  // sanitizer reports of the child go to the parent
      close(fds[1]);
      alarm(120);  // a runaway case (e.g. fall-through after a missing return) must not hang the run
      c.tuple_counter = 0;
      g.fn();
      _exit(0);
    }
    close(fds[1]);
    std::string err;
    char buf[4096];
    ssize_t r;
    while ((r = read(fds[0], buf, sizeof buf)) > 0)
      if (err.size() < (1u << 16)) err.append(buf, static_cast<size_t>(r));
    close(fds[0]);
    int st = 0;
    waitpid(pid, &st, 0);
    if (WIFEXITED(st) && WEXITSTATUS(st) == 0) return;
    char how[64];
    if (WIFSIGNALED(st)) std::snprintf(how, sizeof how, "killed by signal %d (%s)", WTERMSIG(st), strsignal(WTERMSIG(st)));
    else std::snprintf(how, sizeof how, "exit status %d", WEXITSTATUS(st));
    if (s.cur_tuple < 0) {
      record_failure(g.src.c_str(), "HARNESS: child of group %s|%s|%s died before announcing a case: %s", op_name(g.op),
                     g.src.c_str(), g.type.c_str(), how);
      return;
    }
    record_failure(s.cur_id, "CRASH: process %s while executing this case: %s", how, first_report_line(err).c_str());
    // Resume: a crash in the fault-free run (which measures E) makes the other fault indices of the tuple moot.
    if (c.filtered) return;
    if (s.cur_k == 0) {
      c.start_tuple = s.cur_tuple + 1;
      c.start_k = 0;
    } else {
      c.start_tuple = s.cur_tuple;
      c.start_k = s.cur_k + 1;
    }
  }
}

// ---- report -------------------------------------------------------------------------------------------------------
inline void json_str(const char *p) {
  std::putchar('"');
  for (; *p; ++p) {
    unsigned char ch = static_cast<unsigned char>(*p);
    if (ch == '"' || ch == '\\') std::printf("\\%c", ch);
    else if (ch < 0x20) std::printf("\\u%04x", ch);
    else std::putchar(ch);
  }
  std::putchar('"');
}
inline void print_report() {
  const Shared &s = *shared();
  std::printf("{\"evaluations\": %ld, \"distinct_nontrivial\": %ld, \"world_runs\": %ld, \"cplusplus\": %ld, \"maxlen\": %d,\n",
              s.evaluations, s.nontrivial, s.world_runs, static_cast<long>(__cplusplus), cfg().maxlen);
  std::printf(" \"by_algorithm\": {");
  bool first = true;
  for (int i = 0; i < OP_COUNT; ++i) {
    if (!s.by_op[i]) continue;
    std::printf("%s\"%s\": %ld", first ? "" : ", ", op_name(i), s.by_op[i]);
    first = false;
  }
  std::printf("},\n \"failure_total\": %ld,\n \"failures\": [", s.fail_total);
  for (int i = 0; i < s.nfails; ++i) {
    std::printf("%s\n  {\"case\": ", i ? "," : "");
    json_str(s.fails[i].id);
    std::printf(", \"msg\": ");
    json_str(s.fails[i].msg);
    std::printf("}");
  }
  std::printf("],\n \"samples\": [");
  for (int i = 0; i < s.nsamples; ++i) {
    std::printf("%s", i ? ", " : "");
    json_str(s.samples[i]);
  }
  std::printf("]}\n");
}

}  // namespace c15
