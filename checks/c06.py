"""C06 -- allocator protocol: E1 over the ledger allocators, monitor 'alloc'.  Two instantiations additionally run with
one injected allocation/copy fault per history, because a failed (re)allocation is where a capacity word and a block
most easily get out of step."""
import json

import vlib
from checks import c13, e1


def run(ctx):
    q = ctx.tier == "quick"
    matrix = [i for i in (e1.quick_matrix() if q else e1.thorough_matrix()) if e1.relevant("C06", i)]
    I = e1.inst
    matrix += [
        I("vector", 0, "TR", alloc="ledgerrealloc", L=3, opts=["--few-ranges", "--fault", "1"]),
        I("small", 2, "NTR", alloc="ledgerstd", L=3, opts=["--few-ranges", "--fault", "1"]),
        I("vector", 0, "TC4", alloc="ledgerbasic", L=3, opts=["--few-ranges", "--fault", "1"]),
    ]
    cov = e1.explore(ctx, matrix, ["C06"])
    # buffers that change owner through swap2: pairs of heap-capable operands over the exact-count ledger allocator
    pairs = [("sv2", "sv2", "NTR"), ("sv2", "vec32", "TR"), ("vec8", "vec32", "TC4"), ("sv5_16", "vec8", "TR")] if q else \
        [(a, b, ("TC4", "TR", "NTR")[(x + y) % 3]) for x, a in enumerate(("vec32", "vec8", "sv2", "sv3_8", "sv5_16")) for y, b in enumerate(("vec32", "vec8", "sv2", "sv3_8", "sv5_16"))]
    cov = e1.merge_cov(cov, e1.explore(ctx, [c13.inst(a, b, el, L=4 if q else 5) for a, b, el in pairs], ["C06"], engine="E1s", eng=c13.ENG))
    # direct grid over BasicAllocatorWrapper::reallocate (old capacity x new capacity x live count x element category)
    binp = vlib.build("grid_c06.cpp", ["-std=c++17", "-O1", "-g1", "-w", "-fsanitize=address"], "g06")
    rc, out, err = vlib.run([binp], timeout=300, env={"ASAN_OPTIONS": "detect_leaks=1"})
    try:
        res = json.loads(out)
    except ValueError:
        res = None
    if res is None:
        ctx.violation("G06|crash", {"cmd": binp, "stderr": err[-2000:]}, "reallocate grid died: " + (err.strip().split("\n") or [""])[-1][:200])
    else:
        for f in res["failures"]:
            ctx.violation("G06|" + e1.norm("|".join(f.split("|")[:2] + f.split("|")[-1:])), {"case": f, "cmd": binp}, f)
        cov["reallocate_grid_points"] = res["evaluations"]
        cov["samples"] = cov["samples"][:10] + [{"reallocate grid point": s} for s in res["samples"][:2]]
    return ctx.finish("model_checking", cov, e1.ASSUME + ["reallocate grid: capacities 0..6 -> 1..8; new capacity 0 is outside the property (realloc(p,0) is implementation-defined) and not driven"])
