// C06 part: amc's BasicAllocatorWrapper::reallocate called directly ("amc::allocator's reallocate preserves the live
// elements"): for every (old capacity, new capacity, live count) in a small scope and element types int / TR / NTR, over
// the byte-level ledger allocator (which always moves the block and poisons the old one) and over amc::allocator itself.
#include <amc/allocator.hpp>

#include <cstdio>
#include <string>
#include <vector>

#include "allocs.hpp"
#include "elems.hpp"

static long g_eval = 0, g_nontrivial = 0;
static std::vector<std::string> g_fail, g_samples;

template <class T, class A>
static void grid(const char *tname, const char *aname, bool ledger) {
  typedef vf::El<T> E;
  for (size_t oldc = 0; oldc <= 6; ++oldc)
    // new capacity 0 is left out: realloc(p, 0) is implementation-defined (glibc frees and returns NULL, which
    // SimpleAllocator reports as bad_alloc); the containers never ask for it and the property does not speak of it
    for (size_t newc = 1; newc <= 8; ++newc)
      for (size_t live = 0; live <= std::min(oldc, newc); ++live) {
        char id[128];
        std::snprintf(id, sizeof id, "%s|%s|old=%zu|new=%zu|live=%zu", tname, aname, oldc, newc, live);
        vf::L().reset();
        vf::AL().reset();
        A a;
        T *p = oldc ? a.allocate(oldc) : nullptr;
        for (size_t i = 0; i < live; ++i) ::new (static_cast<void *>(p + i)) T(E::make((int)(10 + i)));
        T *q = nullptr;
        bool threw = false;
        try {
          q = a.reallocate(p, oldc, newc, live);
        } catch (...) {
          threw = true;
        }
        ++g_eval;
        if (live > 0 && newc != oldc) ++g_nontrivial;
        std::string err;
        if (threw) err = "reallocate threw";
        else {
          for (size_t i = 0; i < live && err.empty(); ++i) {
            const char *why = nullptr;
            if (!E::sane(q[i], &why)) err = std::string("element ") + std::to_string(i) + ": " + why;
            else if (E::val(q[i]) != (int)(10 + i)) err = "element " + std::to_string(i) + " has value " + std::to_string(E::val(q[i]));
          }
          if (err.empty() && E::tracked && vf::L().live() != (int)live * vf::ObjsPer<T>::value) err = "live objects " + std::to_string(vf::L().live()) + ", expected " + std::to_string(live);
          for (size_t i = 0; i < live; ++i) q[i].~T();
          if (q) a.deallocate(q, newc);
          if (err.empty() && ledger && vf::AL().n != 0) err = "blocks outstanding after deallocate";
        }
        if (err.empty() && vf::L().nfail) err = std::string("ledger: ") + vf::L().fails[0].msg;
        if (!err.empty() && g_fail.size() < 40) g_fail.push_back(std::string(id) + "|" + err);
        if (g_samples.size() < 4 && live == 2 && newc == 5 && oldc == 3) g_samples.push_back(id);
      }
}

int main() {
  grid<int, amc::BasicAllocatorWrapper<int, vf::LedgerBasic> >("int", "ledgerbasic", true);
  grid<vf::TR, amc::BasicAllocatorWrapper<vf::TR, vf::LedgerBasic> >("TR", "ledgerbasic", true);
  grid<vf::NTR, amc::BasicAllocatorWrapper<vf::NTR, vf::LedgerBasic> >("NTR", "ledgerbasic", true);
  grid<vf::PTN, amc::BasicAllocatorWrapper<vf::PTN, vf::LedgerBasic> >("PTN", "ledgerbasic", true);
  grid<int, amc::allocator<int> >("int", "amc", false);
  grid<vf::TR, amc::allocator<vf::TR> >("TR", "amc", false);
  grid<vf::NTR, amc::allocator<vf::NTR> >("NTR", "amc", false);
  std::printf("{\"evaluations\":%ld,\"distinct_nontrivial\":%ld,\"failures\":[", g_eval, g_nontrivial);
  for (size_t i = 0; i < g_fail.size(); ++i) std::printf("%s\"%s\"", i ? "," : "", g_fail[i].c_str());
  std::printf("],\"samples\":[");
  for (size_t i = 0; i < g_samples.size(); ++i) std::printf("%s\"%s\"", i ? "," : "", g_samples[i].c_str());
  std::printf("]}\n");
  return g_fail.empty() ? 0 : 1;
}
