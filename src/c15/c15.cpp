// C15 -- amc:: memory algorithms equal the standard ones, with clean-up on throw.
//
// Bounded EXHAUSTIVE exploration (nested loops, no randomness) of
//     algorithm x source iterator kind x destination kind x element type x length 0..maxlen x fault index 0..E
// where E is the number of fault points (throwing constructors) the fault-free execution passes, so every throw
// point of every configuration is visited.  The program is compiled once per -std= (11/14/17/20): memory.hpp selects
// its emulations or `using std::` by language level, and ImplModeFactory selects memcpy / memcpy-in-a-loop / generic
// code by iterator kind and type trait -- the enumeration reaches each of these branches.
//
// Each case runs in up to three worlds (impls.hpp): amc, a reference written from the standard's wording, and std::
// where the standard library has the algorithm.  The observation of the amc world (harness.hpp: outcome, returned
// iterators as offsets, value / moved-from flag / liveness of every source and destination slot, ledger balance,
// canary bytes around the destination) must equal the oracle worlds'.  What is NOT compared, because neither the
// property nor the standard fixes it: the number of constructor calls (trivially copyable types may be memcpy'd;
// a type declaring trivially_relocatable may be relocated bytewise), bytes of slots whose object was destroyed, the
// value left by default-initialisation of a trivially default constructible type.
//
// Groups of cases run in forked children: a crash (the C++11/14 emulation has a function without return statement)
// is reported as a failure of the case that was running, and exploration resumes behind it.
//
// usage:  c15 [--maxlen N]              explore everything, print one JSON object, exit 1 if any case failed
//         c15 --case "<case id>"        replay exactly one case (same JSON, exit 1 if it fails, 3 if no such case)
// The element types are spread over C15_PART = 0..8 so that one -std= can be compiled as nine translation units in
// parallel (the whole enumeration in one unit takes minutes to compile with the sanitizers); without -DC15_PART the
// program covers everything.  checks/c15.py maps a case id to its part by the type field.
#ifndef C15_PART
#define C15_PART -1
#endif
#define C15_IN_PART(i) (C15_PART < 0 || C15_PART == (i))

#include "harness.hpp"
#include "impls.hpp"

namespace c15 {

// =====================================================================================================================
// observation helpers (templates over the element type)

/// Liveness, value and moved-from flag of n destination slots.  For untracked (trivial-ish) types a slot counts as a
/// live object exactly when the call returned normally.  read_values == false: the values are indeterminate.
/// reversed: logical slot i is physical slot n-1-i (destination kind DRev).
template <class T>
void observe_dst(Obs &o, const T *base, int n, bool reversed, bool read_values = true) {
  o.ndst = n;
  for (int i = 0; i < n; ++i) {
    const T *p = base + (reversed ? n - 1 - i : i);
    o.dalive[i] = Tr<T>::tracked ? Tr<T>::alive(p) : !o.threw;
    if (o.dalive[i] && read_values) {
      o.dval[i] = Tr<T>::val(*p);
      o.dmoved[i] = Tr<T>::moved(*p);
    }
  }
}

/// Liveness etc. of `count` source slots.  `consumed` = the algorithm ended the lifetime of the first n sources
/// (destroy / successful relocate): that is what an untracked type is assumed to have undergone; for tracked types
/// the ledger decides.  A TR whose identity now lives in a destination slot (bytewise relocation) is not alive here.
template <class Box, class T>
void observe_src(Obs &o, Box &box, int count, const int *ids, bool consumed, int n, const T *dbase) {
  typedef typename Box::Elem S;
  o.nsrc = count;
  o.src_tracked = Tr<S>::tracked;
  for (int i = 0; i < count; ++i) {
    const S *p = box.elem(i);
    bool alive = Tr<S>::tracked ? Tr<S>::alive(p) : !(consumed && i < n);
    if (alive && ids[i] >= 0)
      for (int j = 0; j < o.ndst; ++j)  // physical order: only membership matters
        if (Tr<T>::alive(dbase + j) && Tr<T>::id(dbase + j) == ids[i]) alive = false;
    o.salive[i] = alive;
    if (alive) {
      o.sval[i] = Tr<S>::val(*p);
      o.smoved[i] = Tr<S>::moved(*p);
    }
  }
}

template <class T>
void destroy_alive(T *base, const int *alive, int n, bool reversed = false) {
  for (int i = 0; i < n; ++i)
    if (alive[i]) (base + (reversed ? n - 1 - i : i))->~T();
}

// =====================================================================================================================
// drivers and thunks
//
// A *driver* sets the scene for one execution (sources, raw destination, fault injection), observes and tears down; it
// depends on the element type and the iterator kinds only.  The algorithm call itself is a *thunk*, a tiny function
// per (world, algorithm, types) handed to the driver through a type-erased function pointer.  (Making the driver a
// template over world and algorithm as well multiplies its body by ~18 and the compile time with it.)

// ---- source range -> raw destination --------------------------------------------------------------------------------
template <class Impl, int OP>
struct Range;
template <class Impl>
struct Range<Impl, OP_COPY> {
  template <class Box, class D, class T>
  static void call(Box &s, int n, D d, Obs &o, T *d0) {
    o.ret_dst = dst_offset(Impl::ucopy(s.it(0), s.it(n), d), d0, n);
  }
};
template <class Impl>
struct Range<Impl, OP_COPY_N> {
  template <class Box, class D, class T>
  static void call(Box &s, int n, D d, Obs &o, T *d0) {
    o.ret_dst = dst_offset(Impl::ucopy_n(s.it(0), n, d), d0, n);
  }
};
template <class Impl>
struct Range<Impl, OP_MOVE> {
  template <class Box, class D, class T>
  static void call(Box &s, int n, D d, Obs &o, T *d0) {
    o.ret_dst = dst_offset(Impl::umove(s.it(0), s.it(n), d), d0, n);
  }
};
template <class Impl>
struct Range<Impl, OP_MOVE_N> {
  template <class Box, class D, class T>
  static void call(Box &s, int n, D d, Obs &o, T *d0) {
    std::pair<typename Box::It, D> r = Impl::umove_n(s.it(0), n, d);
    o.ret_src = s.offset(r.first);
    o.ret_dst = dst_offset(r.second, d0, n);
  }
};
template <class Impl>
struct Range<Impl, OP_RELOC> {
  template <class Box, class D, class T>
  static void call(Box &s, int n, D d, Obs &o, T *d0) {
    o.consumes = 1;
    o.ret_dst = dst_offset(Impl::reloc(s.it(0), s.it(n), d), d0, n);
  }
};
template <class Impl>
struct Range<Impl, OP_RELOC_N> {
  template <class Box, class D, class T>
  static void call(Box &s, int n, D d, Obs &o, T *d0) {
    o.consumes = 1;
    std::pair<typename Box::It, D> r = Impl::reloc_n(s.it(0), n, d);
    o.ret_src = s.offset(r.first);
    o.ret_dst = dst_offset(r.second, d0, n);
  }
};

template <class T, class SK, class DK>
Obs drive_range(int n, long fault_at, AnyFn thunk) {
  typedef typename SK::template Box<T> Box;
  typedef typename Box::Elem S;
  typedef typename DK::template It<T>::type D;
  typedef void (*Call)(Box &, int, D, Obs &, T *);
  const Call call = reinterpret_cast<Call>(thunk);
  vf::L().reset();
  Obs o;
  o.clear();
  o.tracked = Tr<T>::tracked;
  {
    Box src;
    src.build(n + 1);  // element n is a sentinel the algorithm must leave alone
    RawBuf<T> dst;
    int ids[MAXN];
    for (int i = 0; i <= n; ++i) ids[i] = Tr<S>::id(src.elem(i));
    arm(fault_at);
    try {
      call(src, n, DK::template make<T>(dst.data(), n, 0), o, dst.data());
    } catch (const vf::InjectedFault &) {
      o.threw = 1;
    }
    o.events = disarm();
    observe_dst(o, dst.data(), n, DK::reversed);
    observe_src(o, src, n + 1, ids, o.consumes && !o.threw, n, dst.data());
    o.outside_ok = dst.untouched_outside(n);
    obs_ledger(o);
    vf::L().quiet = o.ledger_fails != 0;
    destroy_alive(dst.data(), o.dalive, n, DK::reversed);
    src.finish(o.salive, n + 1);
  }
  obs_teardown(o);
  return o;
}
template <class Impl, int OP, class T, class SK, class DK>
Runner range_runner() {
  typedef typename SK::template Box<T> Box;
  typedef typename DK::template It<T>::type D;
  void (*thunk)(Box &, int, D, Obs &, T *) = &Range<Impl, OP>::template call<Box, D, T>;
  Runner r = {&drive_range<T, SK, DK>, reinterpret_cast<AnyFn>(thunk)};
  return r;
}

// ---- raw range: default / value construction --------------------------------------------------------------------------
template <class Impl, int OP>
struct Fill;
template <class Impl>
struct Fill<Impl, OP_DEF> {
  template <class D, class T>
  static void call(D f, D l, int, Obs &o, T *) {
    // default-initialisation of a trivially default constructible type leaves an indeterminate value
    o.indeterminate = std::is_trivially_default_constructible<T>::value;
    Impl::udef(f, l);
  }
};
template <class Impl>
struct Fill<Impl, OP_DEF_N> {
  template <class D, class T>
  static void call(D f, D, int n, Obs &o, T *d0) {
    o.indeterminate = std::is_trivially_default_constructible<T>::value;
    o.ret_dst = dst_offset(Impl::udef_n(f, n), d0, n);
  }
};
template <class Impl>
struct Fill<Impl, OP_VAL> {
  template <class D, class T>
  static void call(D f, D l, int, Obs &, T *) {
    Impl::uval(f, l);
  }
};
template <class Impl>
struct Fill<Impl, OP_VAL_N> {
  template <class D, class T>
  static void call(D f, D, int n, Obs &o, T *d0) {
    o.ret_dst = dst_offset(Impl::uval_n(f, n), d0, n);
  }
};

template <class T, class DK>
Obs drive_fill(int n, long fault_at, AnyFn thunk) {
  typedef typename DK::template It<T>::type D;
  typedef void (*Call)(D, D, int, Obs &, T *);
  const Call call = reinterpret_cast<Call>(thunk);
  vf::L().reset();
  Obs o;
  o.clear();
  o.tracked = Tr<T>::tracked;
  {
    RawBuf<T> dst;
    arm(fault_at);
    try {
      call(DK::template make<T>(dst.data(), n, 0), DK::template make<T>(dst.data(), n, n), n, o, dst.data());
    } catch (const vf::InjectedFault &) {
      o.threw = 1;
    }
    o.events = disarm();
    observe_dst(o, dst.data(), n, DK::reversed, !o.indeterminate);
    o.outside_ok = dst.untouched_outside(n);
    obs_ledger(o);
    vf::L().quiet = o.ledger_fails != 0;
    destroy_alive(dst.data(), o.dalive, n, DK::reversed);
  }
  obs_teardown(o);
  return o;
}
template <class Impl, int OP, class T, class DK>
Runner fill_runner() {
  typedef typename DK::template It<T>::type D;
  void (*thunk)(D, D, int, Obs &, T *) = &Fill<Impl, OP>::template call<D, T>;
  Runner r = {&drive_fill<T, DK>, reinterpret_cast<AnyFn>(thunk)};
  return r;
}

// ---- destroy / destroy_n / destroy_at over live objects -----------------------------------------------------------------
template <class Impl, int OP>
struct Destroy;
template <class Impl>
struct Destroy<Impl, OP_DESTROY> {
  template <class D, class T>
  static void call(D f, D l, int, Obs &, T *) {
    Impl::destroy(f, l);
  }
};
template <class Impl>
struct Destroy<Impl, OP_DESTROY_N> {
  template <class D, class T>
  static void call(D f, D, int n, Obs &o, T *p0) {
    o.ret_src = dst_offset(Impl::destroy_n(f, n), p0, n);
  }
};
template <class Impl>
struct Destroy<Impl, OP_DESTROY_AT> {
  template <class D, class T>
  static void call(D, D, int, Obs &, T *p0) {
    Impl::destroy_at(p0);
  }
};

template <class T, class DK>
Obs drive_destroy(int n, long fault_at, AnyFn thunk) {
  typedef typename DK::template It<T>::type D;
  typedef void (*Call)(D, D, int, Obs &, T *);
  const Call call = reinterpret_cast<Call>(thunk);
  vf::L().reset();
  Obs o;
  o.clear();
  o.tracked = Tr<T>::tracked;
  {
    PtrBox<T> box;
    box.build(n + 1);  // sentinel behind the range
    int ids[MAXN];
    for (int i = 0; i <= n; ++i) ids[i] = -1;
    arm(fault_at);
    try {
      call(DK::template make<T>(box.elem(0), n, 0), DK::template make<T>(box.elem(0), n, n), n, o, box.elem(0));
    } catch (const vf::InjectedFault &) {
      o.threw = 1;
    }
    o.events = disarm();
    observe_src(o, box, n + 1, ids, true, n, static_cast<const T *>(0));
    obs_ledger(o);
    vf::L().quiet = o.ledger_fails != 0;
    box.finish(o.salive, n + 1);
  }
  obs_teardown(o);
  return o;
}
template <class Impl, int OP, class T, class DK>
Runner destroy_runner() {
  typedef typename DK::template It<T>::type D;
  void (*thunk)(D, D, int, Obs &, T *) = &Destroy<Impl, OP>::template call<D, T>;
  Runner r = {&drive_destroy<T, DK>, reinterpret_cast<AnyFn>(thunk)};
  return r;
}

// ---- single objects: construct_at forms, relocate_at ------------------------------------------------------------------
template <class Impl, int OP>
struct Single;
template <class Impl>
struct Single<Impl, OP_CAT_VALUE> {
  template <class T>
  static const void *call(T *d, T &, Obs &) { return Impl::cat_value(d, 42); }
};
template <class Impl>
struct Single<Impl, OP_CAT_DEFAULT> {
  template <class T>
  static const void *call(T *d, T &, Obs &) { return Impl::cat_default(d); }
};
template <class Impl>
struct Single<Impl, OP_CAT_COPY> {
  template <class T>
  static const void *call(T *d, T &s, Obs &) { return Impl::cat_copy(d, static_cast<const T &>(s)); }
};
template <class Impl>
struct Single<Impl, OP_CAT_MOVE> {
  template <class T>
  static const void *call(T *d, T &s, Obs &) { return Impl::cat_move(d, s); }
};
template <class Impl>
struct Single<Impl, OP_RELOC_AT> {
  template <class T>
  static const void *call(T *d, T &s, Obs &o) {
    o.consumes = 1;
    return Impl::reloc_at(&s, d);
  }
};

template <class T>
Obs drive_single(int, long fault_at, AnyFn thunk) {
  typedef const void *(*Call)(T *, T &, Obs &);
  const Call call = reinterpret_cast<Call>(thunk);
  vf::L().reset();
  Obs o;
  o.clear();
  o.tracked = Tr<T>::tracked;
  {
    PtrBox<T> src;
    src.build(2);  // the object handed over (where the form takes one) and a sentinel
    RawBuf<T> dst;
    int ids[2] = {Tr<T>::id(src.elem(0)), Tr<T>::id(src.elem(1))};
    arm(fault_at);
    try {
      const void *r = call(dst.data(), *src.elem(0), o);
      o.ret_dst = static_cast<const char *>(r) - reinterpret_cast<const char *>(dst.data());
    } catch (const vf::InjectedFault &) {
      o.threw = 1;
    }
    o.events = disarm();
    observe_dst(o, dst.data(), 1, false);
    observe_src(o, src, 2, ids, o.consumes && !o.threw, 1, dst.data());
    o.outside_ok = dst.untouched_outside(1);
    obs_ledger(o);
    vf::L().quiet = o.ledger_fails != 0;
    destroy_alive(dst.data(), o.dalive, 1);
    src.finish(o.salive, 2);
  }
  obs_teardown(o);
  return o;
}
template <class Impl, int OP, class T>
Runner single_runner() {
  const void *(*thunk)(T *, T &, Obs &) = &Single<Impl, OP>::template call<T>;
  Runner r = {&drive_single<T>, reinterpret_cast<AnyFn>(thunk)};
  return r;
}

// ---- array types: construct_at(array forms), destroy_at(array) ----------------------------------------------------------
template <class Impl, int OP>
struct Arr;
template <class Impl>
struct Arr<Impl, OP_CAT_ARR_MOVE> {
  template <class AT>
  static const void *call(AT *d, AT &s, Obs &) { return Impl::cat_arr_move(d, s); }
};
template <class Impl>
struct Arr<Impl, OP_CAT_ARR_COPY> {
  template <class AT>
  static const void *call(AT *d, AT &s, Obs &) { return Impl::cat_arr_copy(d, s); }
};
template <class Impl>
struct Arr<Impl, OP_CAT_ARR_DEFAULT> {
  template <class AT>
  static const void *call(AT *d, AT &, Obs &) { return Impl::cat_arr_default(d); }
};
template <class Impl>
struct Arr<Impl, OP_DESTROY_AT_ARR> {
  template <class AT>
  static const void *call(AT *, AT &s, Obs &o) {
    o.consumes = 1;
    o.no_dest = 1;
    Impl::destroy_at(&s);
    return 0;
  }
};

/// AT is E[N] or E[N][M]; slots are the CNT elements in memory order.
template <class AT>
Obs drive_array(int, long fault_at, AnyFn thunk) {
  typedef typename std::remove_all_extents<AT>::type E;
  enum { CNT = sizeof(AT) / sizeof(E) };
  static_assert(CNT + 1 <= MAXN, "array too large for the observation record");
  typedef const void *(*Call)(AT *, AT &, Obs &);
  const Call call = reinterpret_cast<Call>(thunk);
  vf::L().reset();
  Obs o;
  o.clear();
  o.tracked = Tr<E>::tracked;
  {
    PtrBox<E> src;
    src.build(CNT + 1);
    RawBuf<E> dst;
    int ids[MAXN];
    for (int i = 0; i <= CNT; ++i) ids[i] = Tr<E>::id(src.elem(i));
    arm(fault_at);
    try {
      const void *r = call(reinterpret_cast<AT *>(dst.data()), *reinterpret_cast<AT *>(src.elem(0)), o);
      if (!o.no_dest) o.ret_dst = static_cast<const char *>(r) - reinterpret_cast<const char *>(dst.data());
    } catch (const vf::InjectedFault &) {
      o.threw = 1;
    }
    o.events = disarm();
    const int nd = o.no_dest ? 0 : CNT;
    observe_dst(o, dst.data(), nd, false);
    observe_src(o, src, CNT + 1, ids, o.consumes && !o.threw, CNT, dst.data());
    o.outside_ok = dst.untouched_outside(nd);
    obs_ledger(o);
    vf::L().quiet = o.ledger_fails != 0;
    destroy_alive(dst.data(), o.dalive, nd);
    src.finish(o.salive, CNT + 1);
  }
  obs_teardown(o);
  return o;
}
template <class Impl, int OP, class AT>
Runner array_runner() {
  const void *(*thunk)(AT *, AT &, Obs &) = &Arr<Impl, OP>::template call<AT>;
  Runner r = {&drive_array<AT>, reinterpret_cast<AnyFn>(thunk)};
  return r;
}

// =====================================================================================================================
// The std world.  Where memory.hpp says `using std::xxx` (C++17: everything but construct_at; C++20: everything) the
// comparison is a tautology today, but it turns into a real oracle the day that branch gets its own implementation.
template <int OP>
struct HasStd {
  static const bool value =
      OP == OP_COPY || OP == OP_COPY_N ||
      (C15_STD17 && (OP == OP_MOVE || OP == OP_MOVE_N || OP == OP_DEF || OP == OP_DEF_N || OP == OP_VAL || OP == OP_VAL_N ||
                     OP == OP_DESTROY || OP == OP_DESTROY_N || OP == OP_DESTROY_AT)) ||
      (C15_STD20 && (OP == OP_CAT_VALUE || OP == OP_CAT_DEFAULT || OP == OP_CAT_COPY || OP == OP_CAT_MOVE ||
                     OP == OP_CAT_ARR_DEFAULT || OP == OP_DESTROY_AT_ARR));
  typedef std::integral_constant<bool, value> type;
};
inline Runner no_runner() {
  Runner r = {0, 0};
  return r;
}
// runner of the std world, or a null runner without instantiating anything
#define C15_COMMA ,
#define C15_STD_SELECTOR(NAME, MAKER, TPARAMS, TARGS)              \
  template <TPARAMS>                                               \
  Runner NAME(std::true_type) { return MAKER<StdImpl, TARGS>(); }  \
  template <TPARAMS>                                               \
  Runner NAME(std::false_type) { return no_runner(); }
C15_STD_SELECTOR(std_range, range_runner, int OP C15_COMMA class T C15_COMMA class SK C15_COMMA class DK, OP C15_COMMA T C15_COMMA SK C15_COMMA DK)
C15_STD_SELECTOR(std_fill, fill_runner, int OP C15_COMMA class T C15_COMMA class DK, OP C15_COMMA T C15_COMMA DK)
C15_STD_SELECTOR(std_destroy, destroy_runner, int OP C15_COMMA class T C15_COMMA class DK, OP C15_COMMA T C15_COMMA DK)
C15_STD_SELECTOR(std_single, single_runner, int OP C15_COMMA class T, OP C15_COMMA T)
C15_STD_SELECTOR(std_array, array_runner, int OP C15_COMMA class AT, OP C15_COMMA AT)

// =====================================================================================================================
// enumeration: tuples, groups

template <int OP, class T, class SK, class DK>
void tuple_range(int n) {
  Tuple t = {OP, SK::name(), DK::name(), Tr<T>::name(), n};
  explore(t, range_runner<AmcImpl, OP, T, SK, DK>(), range_runner<RefImpl, OP, T, SK, DK>(),
          std_range<OP, T, SK, DK>(typename HasStd<OP>::type()));
}
// Destination kinds crossed with a source kind.  T* always.  The forward iterator with every original source kind; it
// is left out for the three "random access, not contiguous" sources, where it selects the same per-element code as
// for the other sources.  The reverse iterator (random access, not contiguous) with those three and with one source
// of each iterator category (T*, vector, list): the pairs on which a "both random access" shortcut differs from
// "both pointers".  (The full cross product doubles the compile time for no further branch of memory.hpp.)
template <class SK>
struct UseFwdDst : std::true_type {};
template <class SK>
struct UseRevDst : std::false_type {};
template <>
struct UseFwdDst<SRev> : std::false_type {};
template <>
struct UseFwdDst<SRevVec> : std::false_type {};
template <>
struct UseFwdDst<SDeqX> : std::false_type {};
template <>
struct UseRevDst<SRev> : std::true_type {};
template <>
struct UseRevDst<SRevVec> : std::true_type {};
template <>
struct UseRevDst<SDeqX> : std::true_type {};
template <>
struct UseRevDst<SPtr> : std::true_type {};
template <>
struct UseRevDst<SVec> : std::true_type {};
template <>
struct UseRevDst<SList> : std::true_type {};

template <int OP, class T, class SK, class DK>
void tuple_range_if(int n, std::true_type) {
  tuple_range<OP, T, SK, DK>(n);
}
template <int OP, class T, class SK, class DK>
void tuple_range_if(int, std::false_type) {}

template <int OP, class T, class SK>
void group_range() {
  for (int n = 0; n <= cfg().maxlen; ++n) {
    tuple_range<OP, T, SK, DPtr>(n);
    tuple_range_if<OP, T, SK, DFwd>(n, typename UseFwdDst<SK>::type());
    tuple_range_if<OP, T, SK, DRev>(n, typename UseRevDst<SK>::type());
  }
}
template <int OP, class T, class SK>
void add_range() {
  Group g = {OP, SK::name(), Tr<T>::name(), &group_range<OP, T, SK>};
  groups().push_back(g);
}

template <int OP, class T, class DK>
void tuple_fill(int n) {
  Tuple t = {OP, "-", DK::name(), Tr<T>::name(), n};
  explore(t, fill_runner<AmcImpl, OP, T, DK>(), fill_runner<RefImpl, OP, T, DK>(), std_fill<OP, T, DK>(typename HasStd<OP>::type()));
}
template <int OP, class T>
void group_fill() {
  for (int n = 0; n <= cfg().maxlen; ++n) {
    tuple_fill<OP, T, DPtr>(n);
    tuple_fill<OP, T, DFwd>(n);
  }
}

template <int OP, class T, class DK>
void tuple_destroy(int n) {
  Tuple t = {OP, "-", DK::name(), Tr<T>::name(), n};
  explore(t, destroy_runner<AmcImpl, OP, T, DK>(), destroy_runner<RefImpl, OP, T, DK>(),
          std_destroy<OP, T, DK>(typename HasStd<OP>::type()));
}
template <int OP, class T>
void group_destroy() {
  if (OP == OP_DESTROY_AT) {
    tuple_destroy<OP, T, DPtr>(1);
    return;
  }
  for (int n = 0; n <= cfg().maxlen; ++n) {
    tuple_destroy<OP, T, DPtr>(n);
    tuple_destroy<OP, T, DFwd>(n);
  }
}

template <int OP, class T>
void group_single() {
  const bool has_src = OP == OP_CAT_COPY || OP == OP_CAT_MOVE || OP == OP_RELOC_AT;
  Tuple t = {OP, has_src ? "ptr" : "-", "ptr", Tr<T>::name(), 1};
  explore(t, single_runner<AmcImpl, OP, T>(), single_runner<RefImpl, OP, T>(), std_single<OP, T>(typename HasStd<OP>::type()));
}

template <class AT>
const char *array_name() {
  typedef typename std::remove_all_extents<AT>::type E;
  static char buf[32];
  if (std::rank<AT>::value == 1) std::snprintf(buf, sizeof buf, "%s[%d]", Tr<E>::name(), (int)std::extent<AT, 0>::value);
  else std::snprintf(buf, sizeof buf, "%s[%d][%d]", Tr<E>::name(), (int)std::extent<AT, 0>::value, (int)std::extent<AT, 1>::value);
  return buf;
}
template <int OP, class AT>
void group_array() {
  typedef typename std::remove_all_extents<AT>::type E;
  const bool has_src = OP != OP_CAT_ARR_DEFAULT;
  Tuple t = {OP, has_src ? "ptr" : "-", OP == OP_DESTROY_AT_ARR ? "-" : "ptr", array_name<AT>(), (int)(sizeof(AT) / sizeof(E))};
  explore(t, array_runner<AmcImpl, OP, AT>(), array_runner<RefImpl, OP, AT>(), std_array<OP, AT>(typename HasStd<OP>::type()));
}

template <class T>
void add(int op, const char *src, void (*fn)()) {
  Group g = {op, src, Tr<T>::name(), fn};
  groups().push_back(g);
}

/// int* source feeding a T destination (value_type mismatch); pointless for T == int
template <int OP, class T>
struct AddConv {
  static void go() { add_range<OP, T, SConv>(); }
};
template <int OP>
struct AddConv<OP, int> {
  static void go() {}
};

template <int OP, class T>
void add_copy_like() {  // uninitialized_copy/_n, uninitialized_move/_n: every source kind
  add_range<OP, T, SPtr>();
  add_range<OP, T, SCPtr>();
  add_range<OP, T, SVec>();
  add_range<OP, T, SDeq>();
  add_range<OP, T, SList>();
  add_range<OP, T, SFwd>();
  add_range<OP, T, SRev>();
  add_range<OP, T, SRevVec>();
  add_range<OP, T, SDeqX>();
  add_range<OP, T, SMove<SPtr> >();
  add_range<OP, T, SMove<SVec> >();
  add_range<OP, T, SMove<SDeq> >();
  add_range<OP, T, SMove<SList> >();
  add_range<OP, T, SMove<SFwd> >();
  AddConv<OP, T>::go();
}
template <int OP, class T>
void add_relocate() {  // sources must be destroyable lvalues: no const pointer, no move_iterator (addressof(T&&))
  add_range<OP, T, SPtr>();
  add_range<OP, T, SVec>();
  add_range<OP, T, SDeq>();
  add_range<OP, T, SList>();
  add_range<OP, T, SFwd>();
  add_range<OP, T, SRev>();
  add_range<OP, T, SRevVec>();
  add_range<OP, T, SDeqX>();
}

template <class T>
void add_type() {
  add_copy_like<OP_COPY, T>();
  add_copy_like<OP_COPY_N, T>();
  add_copy_like<OP_MOVE, T>();
  add_copy_like<OP_MOVE_N, T>();
  add_relocate<OP_RELOC, T>();
  add_relocate<OP_RELOC_N, T>();
  add<T>(OP_DEF, "-", &group_fill<OP_DEF, T>);
  add<T>(OP_DEF_N, "-", &group_fill<OP_DEF_N, T>);
  add<T>(OP_VAL, "-", &group_fill<OP_VAL, T>);
  add<T>(OP_VAL_N, "-", &group_fill<OP_VAL_N, T>);
  add<T>(OP_DESTROY, "-", &group_destroy<OP_DESTROY, T>);
  add<T>(OP_DESTROY_N, "-", &group_destroy<OP_DESTROY_N, T>);
  add<T>(OP_DESTROY_AT, "-", &group_destroy<OP_DESTROY_AT, T>);
  add<T>(OP_CAT_VALUE, "-", &group_single<OP_CAT_VALUE, T>);
  add<T>(OP_CAT_DEFAULT, "-", &group_single<OP_CAT_DEFAULT, T>);
  add<T>(OP_CAT_COPY, "ptr", &group_single<OP_CAT_COPY, T>);
  add<T>(OP_CAT_MOVE, "ptr", &group_single<OP_CAT_MOVE, T>);
  add<T>(OP_RELOC_AT, "ptr", &group_single<OP_RELOC_AT, T>);
}

/// A move-only type goes through every algorithm that does not need a copy: lvalue sources for move / relocate,
/// rvalue (move_iterator) and converting (int*) sources for uninitialized_copy as well; no const T* source, no
/// construct_at(p, const T&).
template <int OP, class T>
void add_rvalue_sources() {
  add_range<OP, T, SMove<SPtr> >();
  add_range<OP, T, SMove<SVec> >();
  add_range<OP, T, SMove<SDeq> >();
  add_range<OP, T, SMove<SList> >();
  add_range<OP, T, SMove<SFwd> >();
  add_range<OP, T, SConv>();
}
template <class T>
void add_type_move_only() {
  add_rvalue_sources<OP_COPY, T>();
  add_rvalue_sources<OP_COPY_N, T>();
  add_relocate<OP_MOVE, T>();  // the lvalue source kinds
  add_relocate<OP_MOVE_N, T>();
  add_rvalue_sources<OP_MOVE, T>();
  add_rvalue_sources<OP_MOVE_N, T>();
  add_relocate<OP_RELOC, T>();
  add_relocate<OP_RELOC_N, T>();
  add<T>(OP_DEF, "-", &group_fill<OP_DEF, T>);
  add<T>(OP_DEF_N, "-", &group_fill<OP_DEF_N, T>);
  add<T>(OP_VAL, "-", &group_fill<OP_VAL, T>);
  add<T>(OP_VAL_N, "-", &group_fill<OP_VAL_N, T>);
  add<T>(OP_DESTROY, "-", &group_destroy<OP_DESTROY, T>);
  add<T>(OP_DESTROY_N, "-", &group_destroy<OP_DESTROY_N, T>);
  add<T>(OP_DESTROY_AT, "-", &group_destroy<OP_DESTROY_AT, T>);
  add<T>(OP_CAT_VALUE, "-", &group_single<OP_CAT_VALUE, T>);
  add<T>(OP_CAT_DEFAULT, "-", &group_single<OP_CAT_DEFAULT, T>);
  add<T>(OP_CAT_MOVE, "ptr", &group_single<OP_CAT_MOVE, T>);
  add<T>(OP_RELOC_AT, "ptr", &group_single<OP_RELOC_AT, T>);
}

template <int OP, class AT>
void add_array() {
  Group g = {OP, OP == OP_CAT_ARR_DEFAULT ? "-" : "ptr", array_name<AT>(), &group_array<OP, AT>};
  groups().push_back(g);
}

/// construct_at(const E(*)[N], const E(&&)[N]): the copying array form of the emulation.  Not for trivially copyable
/// E: amc's dispatch for that combination does not compile (deduction conflict in construct_at_impl), so it is unreachable.
template <int OP, class AT, bool Enable>
struct AddArrayIf {
  static void go() { add_array<OP, AT>(); }
};
template <int OP, class AT>
struct AddArrayIf<OP, AT, false> {
  static void go() {}
};

/// Array forms.  What exists depends on the language level (found by compiling each form under each -std=):
///   construct_at(E(*)[N], E(&&)[N])              amc emulation only: C++11/14/17   (nested E[N][M]: C++11/14; the
///                                                 C++17 branch cleans up with std::destroy, ill-formed for arrays)
///   construct_at(const E(*)[N], const E(&&)[N])  amc emulation only: C++11/14/17, same restriction for nested arrays
///   construct_at(E(*)[N])                        C++20 only (std::construct_at)
///   destroy_at(E(*)[N])                          C++11/14 (emulation) and C++20 (std); ill-formed in C++17
template <class E>
void add_arrays() {
  typedef E A2[2];
  typedef E A22[2][2];
  const bool copy_form = !std::is_trivially_copyable<E>::value && std::is_copy_constructible<E>::value;
  (void)sizeof(A22);
  (void)copy_form;
#if !C15_STD20
  add_array<OP_CAT_ARR_MOVE, A2>();
  AddArrayIf<OP_CAT_ARR_COPY, A2, copy_form>::go();
#endif
#if !C15_STD17
  add_array<OP_CAT_ARR_MOVE, A22>();
  AddArrayIf<OP_CAT_ARR_COPY, A22, copy_form>::go();
#endif
#if C15_STD20
  add_array<OP_CAT_ARR_DEFAULT, A2>();
#endif
#if !C15_STD17 || C15_STD20
  add_array<OP_DESTROY_AT_ARR, A2>();
  add_array<OP_DESTROY_AT_ARR, A22>();
#endif
}

}  // namespace c15
#include "argforms.hpp"
namespace c15 {

void register_groups() {
#if C15_IN_PART(0)
  add_type<int>();
#endif
#if C15_IN_PART(1)
  add_type<TC4>();
  add_arrays<TC4>();
#endif
#if C15_IN_PART(2)
  add_type<TCN>();
#endif
#if C15_IN_PART(3)
  add_type<TR>();
#endif
#if C15_IN_PART(4)
  add_type<NTR>();
  add_arrays<NTR>();
#endif
#if C15_IN_PART(5)
  add_type<NTRX>();
  add_arrays<NTRX>();
#endif
#if C15_IN_PART(6)
  add_type_move_only<NTRXMO>();
  add_arrays<NTRXMO>();
#endif
#if C15_IN_PART(7)
  add_type<TDCA>();
#endif
#if C15_IN_PART(8)
  add_arg_forms<ILT>();
#endif
}

}  // namespace c15

int main(int argc, char **argv) {
  using namespace c15;
  Config &c = cfg();
  for (int i = 1; i < argc; ++i) {
    std::string a = argv[i];
    if (a == "--maxlen" && i + 1 < argc) {
      c.maxlen = std::atoi(argv[++i]);
    } else if (a == "--case" && i + 1 < argc) {
      // <algo>|<src>|<dst>|<type>|n=<n>|k=<k>
      std::string id = argv[++i], f[6];
      size_t pos = 0;
      int nf = 0;
      for (; nf < 6; ++nf) {
        size_t bar = id.find('|', pos);
        f[nf] = id.substr(pos, bar == std::string::npos ? std::string::npos : bar - pos);
        if (bar == std::string::npos) {
          ++nf;
          break;
        }
        pos = bar + 1;
      }
      if (nf != 6 || f[4].compare(0, 2, "n=") != 0 || f[5].compare(0, 2, "k=") != 0) {
        std::fprintf(stderr, "c15: malformed case id '%s'\n", id.c_str());
        return 2;
      }
      c.filtered = true;
      c.f_algo = f[0];
      c.f_src = f[1];
      c.f_dst = f[2];
      c.f_type = f[3];
      c.f_n = std::atoi(f[4].c_str() + 2);
      c.f_k = std::atol(f[5].c_str() + 2);
      if (c.f_n > c.maxlen) c.maxlen = c.f_n;
    } else {
      std::fprintf(stderr, "usage: c15 [--maxlen N] [--case ID]\n");
      return 2;
    }
  }
  if (c.maxlen < 0 || c.maxlen > MAXLEN) {
    std::fprintf(stderr, "c15: maxlen must be in 0..%d\n", (int)MAXLEN);
    return 2;
  }
  void *mem = mmap(0, sizeof(Shared), PROT_READ | PROT_WRITE, MAP_SHARED | MAP_ANONYMOUS, -1, 0);
  if (mem == MAP_FAILED) {
    std::perror("mmap");
    return 2;
  }
  std::memset(mem, 0, sizeof(Shared));
  shared() = static_cast<Shared *>(mem);

  register_groups();
  const std::vector<Group> &gs = groups();
  for (size_t i = 0; i < gs.size(); ++i) {
    const Group &g = gs[i];
    if (c.filtered && (c.f_algo != op_name(g.op) || c.f_src != g.src || c.f_type != g.type)) continue;
    run_group(g);
  }
  print_report();
  if (c.filtered && shared()->evaluations == 0 && shared()->fail_total == 0) {
    std::fprintf(stderr, "c15: no such case\n");
    return 3;
  }
  return shared()->fail_total ? 1 : 0;
}
