"""C20 -- concurrent const access to one container is race-free.

Method (model checking): real threads run closed reader scenarios over shared, fully built const amc containers
under a serialising scheduler (src/c20/sched.c); the explorer inside src/c20/harness.cpp enumerates schedules by
the DFS of iterative context bounding -- never random sampling:

  phase op    operation granularity (points at thread start/exit + operation boundaries), ALL interleavings
  phase fn1   every function entry (-finstrument-functions: amc, libstdc++ templates, harness helpers),
              every single preemption (bound 1); 2 threads x 1 op over all menu pairs + a handful of 3-thread ones
  thorough only:
  phase fa1   function entries outside /usr (amc + harness helpers), bound 1, 3 threads x 1 op, full menu
  phase fn1t  as fn1 for 3 threads x 1 op, completed for scenarios whose default schedule has <= FN1T_MAX points
  phase fa2   amc function entries, bound 2, all 2x1 pairs with <= FA2_MAX points
  phase fn2   every function entry, bound 2, all 2x1 pairs with <= FN2_MAX points

Oracles:
  (i)   every operation returns what it returns when run alone (all phases, all builds)
  (ii)  ThreadSanitizer build (scheduler TU not instrumented, raw-futex hand-off): all op-granularity interleavings
        again + a free-running pass (no scheduler, spin barrier, fixed number of repetitions): zero reports.
        A self-test proves on every run that TSan still reports a race between two strictly serialised threads.
  (iii) plain build: the shared containers and their buffers live in an mmap arena that is PROT_READ while readers
        run -> a write by a const member faults whatever the schedule (self-tested with a const_cast insert).
  (iv)  nm over an object file that instantiates only the const operations, and over one that instantiates the
        mutating members (range/initializer_list insert and assign, emplace, merge, swap, growth, SmallSet grow; int and
        std::string elements): no writable static storage and no guard variable under amc:: -- threads may mutate
        DISTINCT objects, so no member at all may keep hidden shared state.

Exit codes of the harness: 0 ok, 1 result mismatch, 66 TSan report, 77 write to frozen arena, 78 other crash,
3 hard error of the machinery (divergence while replaying a prefix, deadlock, hang) -> the check itself fails.
"""
import os
import queue
import re
import shlex
import sys
import time

import vlib

TSAN_OPTIONS = "halt_on_error=1:exitcode=66"
NSHARDS = 64          # more shards than CPUs: scenario costs vary by three orders of magnitude
FN1T_MAX = 1000       # point limits of the size-capped thorough phases
FA2_MAX = 800
FN2_MAX = 500
FREE_REPS = 20        # free-running repetitions per scenario (scenarios with <= 3 operations)
FREE_REPS_BIG = 3     # ... for the 2 threads x 2 ops family of the thorough tier (93k scenarios)
MAX_CRASHES_PER_SHARD = 3

STD = ["-std=c++17", "-O1"]


class HarnessFailure(Exception):
    """The machinery itself misbehaved (bin/check turns any exception into exit 2)."""


# ------------------------------------------------------------------------------------------------------------------
# builds


def _build_all(tier):
    sched_o = vlib.build("c20/sched.c", ["-O2", "-Wall"], "c20-sched", cxx="gcc", link=False, use_include=False)
    link = [sched_o, "-pthread"]
    jobs = {
        # plain build, every function entry instrumented
        "fine": ("c20/harness.cpp", STD + ["-DC20_ARENA=1", "-DC20_FINE=1", "-finstrument-functions"] + link, "c20-fine", True),
        # ThreadSanitizer build: amc::allocator (malloc), no function instrumentation
        "tsan": ("c20/harness.cpp", STD + ["-g", "-DC20_ARENA=0", "-fsanitize=thread"] + link, "c20-tsan", True),
        # reader-only object for the nm oracle (-O0: every reachable inline function is emitted)
        "readers": ("c20/readers.cpp", ["-std=c++17", "-O0"], "c20-readers", False),
        # same for the mutating members (threads may mutate DISTINCT objects: no hidden shared state anywhere)
        "writers": ("c20/writers.cpp", ["-std=c++17", "-O0"], "c20-writers", False),
    }
    if tier == "thorough":
        # plain build, only code outside /usr instrumented (amc headers + harness helpers)
        jobs["amc"] = ("c20/harness.cpp", STD + ["-DC20_ARENA=1", "-DC20_FINE=2", "-finstrument-functions",
                                                 "-finstrument-functions-exclude-file-list=/usr/include,/usr/lib"] + link,
                       "c20-amc", True)
    names = sorted(jobs)
    outs = vlib.pmap(lambda n: vlib.build(jobs[n][0], jobs[n][1], jobs[n][2], link=jobs[n][3]), names)
    return dict(zip(names, outs))


# ------------------------------------------------------------------------------------------------------------------
# oracle (iv): nm over the reader-only object


def _writable_amc_symbols(obj):
    """Symbols under amc:: that live in writable storage, plus guard variables for amc:: objects."""
    rc, out, err = vlib.run(["nm", "-C", "--format=sysv", obj])
    if rc != 0:
        raise HarnessFailure("nm failed: " + err)
    bad, seen = [], 0
    for line in out.splitlines():
        f = [x.strip() for x in line.split("|")]
        if len(f) != 7 or "amc::" not in f[0]:
            continue
        seen += 1
        name, cls, section = f[0], f[2], f[6]
        writable = (cls in ("b", "B", "d", "D", "s", "S", "g", "G", "C")
                    or (section.startswith((".bss", ".data", ".tbss", ".tdata")) and not section.startswith(".data.rel.ro")))
        if writable or name.startswith("guard variable for"):
            bad.append((name, cls, section))
    return seen, bad


def _nm_oracle(ctx, objects):
    # self-test of the oracle itself: a function-local static under amc:: must be flagged
    probe = os.path.join(vlib.BUILD, "c20-nmprobe-%d" % os.getpid())
    with open(probe + ".cpp", "w") as fh:
        fh.write("namespace amc { struct S { S(); int v; }; inline int f() { static int n; static S s; return ++n + s.v; } }\n"
                 "int g() { return amc::f(); }\n")
    rc, out, err = vlib.run([vlib.CXX, "-std=c++17", "-O0", "-c", probe + ".cpp", "-o", probe + ".o"])
    if rc != 0:
        raise HarnessFailure("nm probe does not compile: " + err)
    _, bad = _writable_amc_symbols(probe + ".o")
    for p in (probe + ".cpp", probe + ".o"):
        os.unlink(p)
    names = " ".join(b[0] for b in bad)
    if "amc::f()::n" not in names or "guard variable for amc::f()::s" not in names:
        print("C20 SELF-TEST FAILED: the nm oracle does not flag a static under amc:: (%s)" % names, file=sys.stderr)
        sys.exit(2)
    total_seen, total_bad, reported = 0, 0, set()
    for label, obj in objects:
        seen, bad = _writable_amc_symbols(obj)
        if seen < 100:
            raise HarnessFailure("%s object has only %d amc:: symbols; the oracle would be vacuous" % (label, seen))
        total_seen += seen
        for name, cls, section in bad:
            if name in reported:
                continue
            reported.add(name)
            total_bad += 1
            short = re.sub(r"<.*>", "<>", name)[:80]
            cmd = "nm -C --format=sysv %s | grep -F %s" % (obj, shlex.quote(name[:120]))
            ctx.violation("c20|static|%s|writable-static" % short.replace("|", "/"),
                          {"scenario": "%s object" % label, "schedule": [], "cmd": cmd, "symbol": name, "class": cls, "section": section},
                          "%s reach writable static storage under amc:: (state shared by all threads and all container "
                          "objects): %s (nm class %s, section %s)" % (label, name, cls, section))
    return total_seen, total_bad


# ------------------------------------------------------------------------------------------------------------------
# self-tests of oracles (ii) and (iii) and of the divergence check -- run on EVERY run, exit 2 if one is blind


def _selftests(bins):
    env = {"TSAN_OPTIONS": TSAN_OPTIONS}
    res = {}
    # (ii) two strictly serialised threads increment a shared int: TSan must report it despite the serialisation
    for sched in ("0", "1"):
        rc, out, err = vlib.run([bins["tsan"], "--scenario", "selftest-race", "--schedule", sched], env=env, timeout=120)
        if rc != 66 or "data race" not in err or "g_selftest_counter" not in err:
            print("C20 SELF-TEST FAILED: ThreadSanitizer is blind under the serialising scheduler "
                  "(selftest-race, schedule %s: rc=%d)\n%s" % (sched, rc, err[-2000:]), file=sys.stderr)
            sys.exit(2)
    res["tsan_sees_serialised_race"] = True
    # (iii) const_cast insert into the frozen shared container must fault
    rc, out, err = vlib.run([bins["fine"], "--scenario", "selftest-write", "--schedule", "0"], timeout=120)
    if rc != 77 or "WRITE-TO-FROZEN" not in err:
        print("C20 SELF-TEST FAILED: a write to the frozen arena was not caught (rc=%d)\n%s" % (rc, err[-2000:]), file=sys.stderr)
        sys.exit(2)
    res["frozen_arena_catches_write"] = True
    # scheduler: an impossible choice while replaying a prefix must be a hard error, never ignored
    rc, out, err = vlib.run([bins["fine"], "--scenario", "vector:op:bU:iter/copy", "--schedule", "0,0,7"], timeout=120)
    if rc != 3 or "divergence" not in err:
        print("C20 SELF-TEST FAILED: schedule divergence not reported as hard error (rc=%d)\n%s" % (rc, err[-2000:]), file=sys.stderr)
        sys.exit(2)
    res["divergence_is_hard_error"] = True
    return res


# ------------------------------------------------------------------------------------------------------------------
# running one phase: NSHARDS shard processes, each pinned to its own CPU, restarted after a crash (= violation)

_KV = re.compile(r"(\w+)=(\S+)")
_CTX = re.compile(r"scenario=(\S+) index=(-?\d+) schedule=(\S+)")
ORACLE_BY_RC = {66: "tsan-race", 77: "frozen-write", 78: "crash"}


class Phase:
    def __init__(self, name, binary, build):
        self.name, self.binary, self.build = name, binary, build
        self.scenarios = self.schedules = self.decisions = self.points = self.inter = self.outcomes = 0
        self.max_outcomes = self.too_large = self.incomplete = self.skipped = self.free_runs = self.maxpoints = 0
        self.found = []      # (scenario id, schedule text, oracle, detail)
        self.samples = []
        self.stopped_early = False
        self.wall = 0.0

    def as_dict(self):
        d = {"binary": self.build, "scenarios": self.scenarios, "schedules": self.schedules, "decisions": self.decisions,
             "new_points": self.points, "max_points_in_one_schedule": self.maxpoints,
             "distinct_interleavings": self.inter, "distinct_outcomes": self.outcomes,
             "max_outcomes_per_scenario": self.max_outcomes, "wall_s": round(self.wall, 1),
             "complete": not (self.incomplete or self.skipped or self.stopped_early)}
        if self.too_large:
            d["scenarios_over_point_limit_not_expanded"] = self.too_large
        if self.incomplete or self.skipped:
            d["scenarios_incomplete"] = self.incomplete
            d["scenarios_skipped_by_time_budget"] = self.skipped
        if self.free_runs:
            d["free_runs"] = self.free_runs
        return d


def _run_phase(ctx, name, binary, build, tier, phase_arg, extra, env, pinned, budget, workers=None):
    ph = Phase(name, binary, build)
    t0 = time.time()
    cpus = queue.Queue()
    for c in range(vlib.NCPU):
        cpus.put(c)

    def shard(k):
        cpu = cpus.get()
        try:
            resume, crashes, lines, found = 0, 0, [], []
            while True:
                cmd = [binary, "--tier", tier, "--phase", phase_arg, "--shard", "%d/%d" % (k, NSHARDS),
                       "--resume", str(resume), "--budget-s", str(max(5, int(budget - (time.time() - t0))))] + extra
                if pinned:
                    cmd += ["--pin", str(cpu)]
                rc, out, err = vlib.run(cmd, env=env, timeout=budget + 120)
                lines += out.splitlines()
                if rc in (0, 1) and "DONE shard=" in out:
                    return lines, found, False
                if rc == 3 or rc == -999 or (rc >= 0 and rc not in ORACLE_BY_RC):
                    raise HarnessFailure("phase %s shard %d: rc=%d\n%s\n%s" % (name, k, rc, " ".join(cmd), err[-3000:]))
                # the process died inside a scenario: that is an observation of oracle (ii)/(iii) or a crash
                m = None
                for m in _CTX.finditer(err):
                    pass
                if m is None:
                    raise HarnessFailure("phase %s shard %d died (rc=%d) without context\n%s" % (name, k, rc, err[-3000:]))
                oracle = ORACLE_BY_RC.get(rc, "crash")
                found.append((m.group(1), m.group(3), oracle, _digest(rc, "", err)))
                crashes += 1
                resume = int(m.group(2)) + 1
                if crashes >= MAX_CRASHES_PER_SHARD:
                    return lines, found, True
        finally:
            cpus.put(cpu)

    for lines, found, stopped in vlib.pmap(shard, list(range(NSHARDS)), workers=workers or vlib.NCPU):
        ph.found += found
        ph.stopped_early |= stopped
        for line in lines:
            tag = line[:2]
            if tag not in ("S ", "F ", "K ", "V ", "DO"):
                continue
            kv = dict(_KV.findall(line))
            if tag == "S ":
                ph.scenarios += 1
                ph.schedules += int(kv["schedules"])
                ph.decisions += int(kv["decisions"])
                ph.points += int(kv["points"])
                ph.inter += int(kv["inter"])
                ph.outcomes += int(kv["outcomes"])
                ph.max_outcomes = max(ph.max_outcomes, int(kv["outcomes"]))
                ph.maxpoints = max(ph.maxpoints, int(kv["maxpoints"]))
                ph.incomplete += kv["complete"] != "1"
                if len(ph.samples) < 3 and int(kv["schedules"]) > 1 and int(kv["idx"]) % 97 == 5:
                    ph.samples.append({"scenario": kv["id"], "schedule": kv["last"]})
            elif tag == "F ":
                ph.scenarios += 1
                ph.free_runs += int(kv["runs"])
            elif tag == "K ":
                ph.too_large += 1
            elif tag == "V ":
                detail = line.split(" detail=", 1)[1] if " detail=" in line else ""
                ph.found.append((kv["id"], kv["schedule"], "result-mismatch", detail))
            elif line.startswith("DONE"):
                ph.skipped += int(kv["skipped"])
    ph.wall = time.time() - t0
    return ph


# ------------------------------------------------------------------------------------------------------------------
# violations: stand-alone replay (twice, identical observations required), then report


def _digest(rc, out, err):
    """What one run showed, stripped of addresses and pids."""
    keep = []
    for line in (out + "\n" + err).splitlines():
        if line.startswith("OBS "):
            keep.append(line)
        elif line.startswith("WRITE-TO-FROZEN") or line.startswith("CRASH"):
            keep.append(re.sub(r"addr=\S+ ", "", line))
        elif line.startswith("SUMMARY: ThreadSanitizer"):
            keep.append(line)
        elif "ThreadSanitizer: data race" in line:
            keep.append(re.sub(r"\(pid=\d+\)", "", line).strip())
        elif re.match(r"\s+(Location is|Previous write|Previous read|Write of|Read of)", line):
            keep.append(re.sub(r"0x[0-9a-f]+", "ADDR", re.sub(r"\(.*\+0x[0-9a-f]+\)", "", line)).strip())
    return "rc=%d | " % rc + " | ".join(keep[:8])


def _sig_ops(scenario_id):
    """'kind:gran:bound:a+b/c' -> ('kind', 'a.b+c')."""
    if scenario_id.startswith("selftest"):
        return scenario_id, scenario_id
    kind, _, _, ops = scenario_id.split(":", 3)
    return kind, "+".join(t.replace("+", ".") for t in ops.split("/"))


def _expand_schedule(text):
    out = []
    if text in ("-", "free") or text.startswith("sequential:"):
        return out
    for tok in text.split(","):
        v, _, n = tok.partition("*")
        out += [int(v)] * (int(n) if n else 1)
    return out


def _report(ctx, ph, env):
    seen = set()
    for scen, sched, oracle, detail in ph.found:
        kind, ops = _sig_ops(scen)
        sig = "c20|%s|%s|%s" % (kind, ops, oracle)
        if sig in seen:
            continue
        seen.add(sig)
        free = sched == "free"
        sched_arg = "-" if sched.startswith("sequential:") else sched
        argv = [ph.binary, "--scenario", scen] + (["--free", "200"] if free else ["--schedule", sched_arg])
        prefix = ("TSAN_OPTIONS=%s " % TSAN_OPTIONS) if ph.build == "tsan" else ""
        cmd = prefix + " ".join(shlex.quote(a) for a in argv)
        obs = []
        for _ in range(2):
            rc, out, err = vlib.run(argv, env=env, timeout=300)
            if rc == 3:
                raise HarnessFailure("replay hit a hard error: %s\n%s" % (cmd, err[-2000:]))
            obs.append(_digest(rc, out, err))
        failed = [not o.startswith("rc=0 ") for o in obs]
        if not free and (obs[0] != obs[1] or not all(failed)):
            # a controlled schedule is deterministic by construction; if it is not, the machinery is broken
            raise HarnessFailure("replay of %s is not deterministic / does not fail again:\n 1: %s\n 2: %s" % (cmd, obs[0], obs[1]))
        what = {
            "tsan-race": "ThreadSanitizer reports a data race between concurrent const operations",
            "frozen-write": "a const operation wrote to the (read-only) shared container or its buffer",
            "result-mismatch": "an operation returned something else than when run alone",
            "crash": "the process crashed inside a reader scenario",
        }[oracle]
        ctx.violation(sig, {"scenario": scen, "schedule": _expand_schedule(sched), "schedule_text": sched, "phase": ph.name,
                            "cmd": cmd, "oracle": oracle, "observed": obs[0], "observed_second_replay": obs[1],
                            "reproduced": "%d/2" % sum(failed), "first_seen": detail},
                      "%s: %s [%s] schedule %s -> %s" % (what, scen, ph.name, sched, obs[0][:300]))


# ------------------------------------------------------------------------------------------------------------------


def run(ctx):
    tier = ctx.tier
    thorough = tier == "thorough"
    bins = _build_all(tier)
    selftests = _selftests(bins)
    nm_symbols, nm_bad = _nm_oracle(ctx, [("const reader operations", bins["readers"]),
                                          ("mutating member functions", bins["writers"])])
    selftests["nm_oracle_flags_static_under_amc"] = True

    tsan_env = {"TSAN_OPTIONS": TSAN_OPTIONS}
    budget = 240 if thorough else 40      # seconds per phase; a phase that runs out of it is reported as incomplete
    phases = []

    def go(name, build, phase_arg, extra=(), env=None, pinned=True, workers=None):
        ph = _run_phase(ctx, name, bins[build], build, tier, phase_arg, list(extra), env, pinned, budget, workers)
        _report(ctx, ph, env)
        phases.append(ph)
        return ph

    p_op = go("op-all-interleavings", "fine", "op")
    p_fn1 = go("fn-bound1", "fine", "fn1")
    p_top = go("tsan-op-all-interleavings", "tsan", "op", env=tsan_env)
    p_free = go("tsan-free-running", "tsan", "op", ["--free", str(FREE_REPS), "--free-big", str(FREE_REPS_BIG)],
                env=tsan_env, pinned=False, workers=max(2, vlib.NCPU // 2))
    extra_phases = []
    if thorough:
        extra_phases.append(go("fa-bound1-3threads", "amc", "fa1"))
        extra_phases.append(go("fn-bound1-3threads", "fine", "fn1t", ["--max-points", str(FN1T_MAX)]))
        extra_phases.append(go("fa-bound2", "amc", "fa2", ["--max-points", str(FA2_MAX)]))
        extra_phases.append(go("fn-bound2", "fine", "fn2", ["--max-points", str(FN2_MAX)]))

    controlled = [p for p in phases if p is not p_free]
    core = [p_op, p_fn1, p_top, p_free] + extra_phases[:1]   # the phases that carry the tier's stated bounds
    exhaustive = all(p.as_dict()["complete"] for p in phases) and not ctx.viol
    samples = []
    for p in controlled:
        samples += [dict(s, phase=p.name) for s in p.samples[:2]]
    bound_done = {
        "op_granularity": "unbounded" if p_op.as_dict()["complete"] and p_top.as_dict()["complete"] else "incomplete",
        "function_granularity": 1 if p_fn1.as_dict()["complete"] else 0,
    }
    if thorough:
        fa1, fn1t, fa2, fn2 = extra_phases
        bound_done["amc_function_granularity_3_threads"] = 1 if fa1.as_dict()["complete"] else 0
        bound_done["function_granularity_3_threads"] = "1 for %d of %d scenarios (default schedule <= %d points)" % (
            fn1t.scenarios, fn1t.scenarios + fn1t.too_large, FN1T_MAX)
        bound_done["amc_function_granularity_bound2"] = "2 for %d of %d two-thread scenarios (<= %d points)" % (
            fa2.scenarios, fa2.scenarios + fa2.too_large, FA2_MAX)
        bound_done["function_granularity_bound2"] = "2 for %d of %d two-thread scenarios (<= %d points)" % (
            fn2.scenarios, fn2.scenarios + fn2.too_large, FN2_MAX)

    coverage = {
        # states: nodes of the exploration trees = scheduling points reached for the first time (a point replayed
        # from the parent's prefix is not counted again); transitions: scheduling decisions executed, replays included
        "states": sum(p.points for p in controlled),
        "transitions": sum(p.decisions for p in controlled),
        "traces_validated_against_impl": sum(p.schedules for p in controlled),  # every schedule ran the real code
        "samples": samples,
        "schedules": sum(p.schedules for p in controlled),
        # scenario explorations = scenario x (granularity, bound) x build; the thread/operation assignments themselves
        # are the op-granularity scenarios (every other phase re-explores a subset of them at a finer granularity)
        "scenarios": sum(p.scenarios for p in controlled),
        "distinct_scenarios_op_granularity": p_op.scenarios,
        "distinct_interleavings": sum(p.inter for p in controlled),
        "preemption_bound_completed": bound_done,
        "distinct_outcomes": sum(p.outcomes for p in controlled),
        "max_outcomes_per_scenario": max(p.max_outcomes for p in controlled),
        "tsan_schedules": p_top.schedules,
        "tsan_free_runs": p_free.free_runs,
        "nm_amc_symbols_checked": nm_symbols,
        "nm_writable_amc_symbols": nm_bad,
        "selftests": selftests,
        "phases": {p.name: p.as_dict() for p in phases},
        "exhaustive": bool(exhaustive),
        "exhaustive_scope": "every schedule within the bounds listed in preemption_bound_completed was executed; the "
                            "size-capped phases (fn1t, fa2, fn2) are complete only for the scenario counts stated there, "
                            "scenarios over the point limit are covered at bound 1 (fn-bound1 / fa-bound1-3threads) only",
    }
    if not all(p.as_dict()["complete"] for p in core):
        coverage["not_fully_covered"] = [p.name for p in phases if not p.as_dict()["complete"]]
    assumptions = [
        "containers of int; 14 container kinds: with std::less -- vector 5 elems, SmallVector<int,4> inline 3 / heap 6, "
        "FixedCapacityVector<int,4> 3, FlatSet 5, SmallSet<int,4> inline 3 / large 6 on std::set and on FlatSet backing; "
        "with DualLess (stateful comparator offering a pure const and a counting non-const call operator, so that a const "
        "member invoking the container's comparator as a non-const object writes into the shared container) -- FlatSet, "
        "SmallSet inline / large on std::set and on FlatSet backing; the comparator state is part of the lookup digests; "
        "comparison twins differ in the last element; SmallSet inline also against a LARGE twin of equal size, both orders",
        "2-3 threads, 1-2 operations each; any thread may instead run `mut`: build, mutate (push/insert/erase, for sets also "
        "range and initializer_list insertions that take FlatSet's merge path, operator=(il)) and destroy its OWN container -- "
        "mut+mut pairs are the writers-on-distinct-objects case of the property",
        "operation granularity: all interleavings; function-entry granularity: preemption bound 1 (bound 2 only where stated "
        "in preemption_bound_completed); preemption inside a function body between two entries is not explored -- "
        "covered indirectly by oracles (ii) ThreadSanitizer (happens-before, schedule independent) and (iii) frozen arena",
        "ThreadSanitizer models the C++ happens-before relation, not hardware reordering",
        "plain build uses an mmap bump allocator (ArenaAlloc) so SimpleAllocator is exercised by the TSan build and the nm oracle only",
        "g++ -std=c++17 -O1, libstdc++",
    ]
    return ctx.finish("model_checking", coverage, assumptions)
