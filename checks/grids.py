"""Shared driver for the grid enumerators (C18, C19): build per configuration, run, replay failures by --case."""
import json

import vlib


def run_grids(ctx, src, tagprefix, configs, args, sigfn, level_rule):
    """configs: list of (name, flags).  Returns coverage dict."""
    bins = vlib.pmap(lambda c: vlib.build(src, c[1], tagprefix + "-" + c[0]), configs)
    tot_eval = tot_nt = 0
    samples, per = [], []

    def one(cb):
        (name, _), binp = cb
        rc, out, err = vlib.run([binp] + args, timeout=max(60, ctx.time_left() - 30))
        try:
            return name, binp, rc, json.loads(out), err
        except ValueError:
            return name, binp, rc, None, err

    for name, binp, rc, res, err in vlib.pmap(one, list(zip(configs, bins))):
        if res is None:
            ctx.violation("%s|%s|crash" % (tagprefix, name), {"config": name, "stderr": err[-2000:], "cmd": " ".join([binp] + args)}, "grid died: " + err.strip().split("\n")[-1][:200])
            continue
        tot_eval += res["evaluations"]
        tot_nt += res["distinct_nontrivial"]
        per.append({"config": name, **{k: v for k, v in res.items() if k not in ("failures", "samples")}})
        samples += [name + ": " + s for s in res["samples"][:2]]
        for f in res["failures"]:
            sig = "%s|%s|%s" % (tagprefix, name, sigfn(f))
            ctx.violation(sig, {"config": name, "observed": f, "cmd": " ".join([binp] + args)}, f)
    return {"evaluations": tot_eval, "distinct_nontrivial": tot_nt, "rule": level_rule, "samples": samples[:10], "configurations": per, "exhaustive": True}
