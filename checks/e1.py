"""E1 driver: builds explore_vec.cpp per instantiation, runs the exhaustive exploration, maps violations to a property.

An instantiation is a dict: flavour(0 vector,1 small,2 fixed,3 fixedu) N elem st alloc std K L [opts] [reloc].
"""
import json
import os
import re
import tempfile

import vlib

ELEMS = {"TC1": 1, "TCS1": 2, "TC4": 4, "TC12": 12, "TC32": 32, "TC300": 300, "TR": 20, "NTR": 21, "PTT": 22, "PTN": 23}
ALLOCS = {"amc": 0, "std": 1, "ledgerstd": 2, "ledgerrealloc": 3, "ledgerbasic": 4}
FLAV = {"vector": 0, "small": 1, "fixed": 2, "fixedu": 3}
TRACKED = ("TR", "NTR", "PTT", "PTN")


def inst(flavour, N, elem, st="uint32_t", alloc="amc", std="c++17", K=1, L=None, opts=(), reloc=0, nonstd=True):
    if L is None:
        L = N + 2 if flavour in ("small",) else (N if flavour.startswith("fixed") else 4)
    return dict(flavour=flavour, N=N, elem=elem, st=st, alloc=alloc, std=std, K=K, L=L, opts=list(opts), reloc=reloc, nonstd=nonstd)


def name(i):
    return "%s%d-%s-%s-%s-%s" % (i["flavour"], i["N"], i["elem"], i["st"].replace("_t", ""), i["alloc"], i["std"])


def flags(i):
    f = ["-std=" + i["std"], "-O1", "-g1", "-fno-access-control", "-w",
         "-DCFG_FLAVOUR=%d" % FLAV[i["flavour"]], "-DCFG_N=%d" % i["N"], "-DCFG_ELEM=%d" % ELEMS[i["elem"]],
         "-DCFG_ST=%s" % i["st"], "-DCFG_ALLOC=%d" % ALLOCS[i["alloc"]]] + vlib.SAN
    if i.get("nonstd", True):
        f.append("-DAMC_NONSTD_FEATURES")
    return f


def build(i):
    return vlib.build("explore_vec.cpp", flags(i), "ev-" + name(i))


def quick_matrix():
    return [
        inst("small", 2, "TC4", K=1, L=4),
        inst("small", 2, "TC4", K=2, L=2, opts=["--few-ranges"]),
        inst("small", 3, "TR", st="uint8_t", alloc="ledgerrealloc", L=4, opts=["--few-ranges"]),
        inst("small", 2, "NTR", alloc="ledgerstd", L=4),
        inst("small", 1, "TC12", st="uint16_t", alloc="std", L=3),
        inst("small", 4, "TC1", st="int16_t", alloc="ledgerbasic", L=5, opts=["--few-ranges", "--no-alias", "--no-ctors"]),
        inst("small", 3, "PTN", alloc="amc", L=4, opts=["--few-ranges"]),
        inst("small", 2, "PTT", st="uint64_t", alloc="ledgerbasic", L=3),
        inst("small", 2, "NTR", st="int8_t", alloc="ledgerstd", std="c++20", L=3),
        inst("vector", 0, "TC4", L=4),
        inst("vector", 0, "TCS1", st="uint16_t", K=2, L=2, opts=["--few-ranges", "--no-ctors"]),  # signed bytes, negative values
        inst("vector", 0, "NTR", st="uint8_t", alloc="ledgerstd", L=3),
        inst("vector", 0, "TR", st="int32_t", alloc="ledgerrealloc", L=2, K=2, opts=["--few-ranges", "--no-ctors"]),
        inst("fixed", 3, "NTR", st="uint8_t", L=3),
        inst("fixed", 2, "TR", st="uint8_t", L=2, K=2),
        inst("fixedu", 3, "TC4", st="uint8_t", L=3),
        inst("fixed", 4, "TC12", st="uint16_t", L=4, opts=["--few-ranges"]),
        inst("small", 2, "TC300", K=2, L=2, opts=["--few-ranges", "--no-ctors"]),  # 300-byte elements (scratch buffers, byte counts)
        # non-relocatable elements with an allocator that OFFERS reallocate (a raw byte move): it must never be used for them
        inst("vector", 0, "NTR", alloc="ledgerrealloc", L=3, opts=["--few-ranges"]),
        inst("small", 2, "PTN", alloc="ledgerrealloc", L=3, opts=["--few-ranges"]),
        # FixedCapacityVector<T,1> and <T,0> are separate specialisations (one slot and no array; no storage at all)
        inst("fixed", 1, "NTR", st="uint8_t", L=1, K=2),
        inst("fixed", 0, "TR", st="uint8_t", L=0),
    ]


def thorough_matrix():
    m = []
    sts = ["uint8_t", "int8_t", "uint16_t", "int16_t", "uint32_t", "int32_t", "uint64_t"]
    allocs = ["amc", "std", "ledgerstd", "ledgerrealloc", "ledgerbasic"]
    elems = ["TC1", "TCS1", "TC4", "TC12", "TR", "NTR", "PTT", "PTN"]
    n = 0
    # every (flavour,N) x every element category; size_type and allocator rotated so that each pair (element,size_type),
    # (element,allocator), (flavour,size_type), (flavour,allocator) occurs; size bound chosen so that every
    # instantiation reaches its fixpoint (measured)
    LB = {("small", 1): 4, ("small", 2): 5, ("small", 3): 5, ("vector", 0): 5}
    for fl, Ns in (("small", [1, 2, 3]), ("vector", [0]), ("fixed", [2, 3, 4]), ("fixedu", [3])):
        for N in Ns:
            for ei, el in enumerate(elems):
                for rot in range(2 if fl in ("small", "vector") else 1):
                    st = sts[(n + rot * 3) % len(sts)]
                    al = allocs[(n + ei + rot * 2) % len(allocs)]
                    n += 1
                    if fl.startswith("fixed"):
                        st = ["uint8_t", "uint16_t", "uint32_t"][n % 3]
                        m.append(inst(fl, N, el, st=st, L=N, K=1))
                    else:
                        L = LB[(fl, N)]
                        m.append(inst(fl, N, el, st=st, alloc=al, L=L, K=1, opts=["--few-ranges"] if L >= 5 else []))
    # larger inline capacity (kNbSlots = 8 for 1-byte elements: N=5 has no separate inline array)
    for el, st, al in (("TC1", "uint8_t", "ledgerstd"), ("TC4", "uint16_t", "amc"), ("TR", "int16_t", "ledgerrealloc"), ("NTR", "int32_t", "ledgerstd")):
        m.append(inst("small", 5, el, st=st, alloc=al, L=6, K=1, opts=["--few-ranges", "--no-ctors", "--no-alias"]))
    # pool of two, to the fixpoint.  Measured (16 cores busy): K=2 L=3 with the reduced range menu needs 8-15 minutes per
    # instantiation and SmallVector<3> K=2 L=3 does not finish in 40; so L=3 for N <= 2 / vector / fixed, L=2 with the full
    # alphabet for N=3 (its inline-full states are reached by the single-vector instantiations above and by the E1s pairs)
    fr = ["--few-ranges"]
    for el, al, st in (("TC4", "amc", "uint32_t"), ("TR", "ledgerrealloc", "uint8_t"), ("NTR", "ledgerstd", "uint16_t"), ("PTN", "ledgerbasic", "int32_t")):
        m.append(inst("small", 2, el, st=st, alloc=al, K=2, L=3, opts=fr))
        m.append(inst("small", 1, el, st=st, alloc=al, K=2, L=3, opts=fr))
        m.append(inst("vector", 0, el, st=st, alloc=al, K=2, L=3, opts=fr))
        m.append(inst("fixed", 3, el, st="uint8_t", K=2, L=3, opts=fr))
        m.append(inst("small", 3, el, st=st, alloc=al, K=2, L=2))
        m.append(inst("small", 2, el, st=st, alloc=al, K=2, L=2))
    # the N=1 and N=0 specialisations of FixedCapacityVector
    for el in ("TC4", "TC12", "TR", "NTR", "PTN"):
        m.append(inst("fixed", 1, el, st="uint8_t", L=1, K=2))
        m.append(inst("fixed", 0, el, st="uint8_t", L=0))
    m.append(inst("fixedu", 1, "TC12", st="uint8_t", L=1))
    # wide elements
    m.append(inst("small", 2, "TC300", K=2, L=2, opts=fr))
    m.append(inst("small", 3, "TC300", st="uint8_t", alloc="ledgerrealloc", L=4, opts=fr))
    m.append(inst("fixed", 3, "TC300", st="uint8_t", L=3))
    m.append(inst("vector", 0, "TC300", alloc="ledgerbasic", L=4, opts=fr))
    # C++20 (<=>, erase, erase_if); C++11/14 are covered by C16's replayer builds
    for el in ("TC4", "TR", "NTR"):
        m.append(inst("small", 2, el, std="c++20", alloc="ledgerstd", L=4))
        m.append(inst("vector", 0, el, std="c++20", alloc="ledgerrealloc", L=4))
        m.append(inst("fixed", 3, el, std="c++20", st="uint8_t", L=3))
    return m


class Eng:
    """what differs between the vector (E1) and set (E2) explorers"""

    def __init__(self, label, build_fn, name_fn, cat_fn, kind_fn):
        self.label, self.build, self.name, self.cat, self.kind = label, build_fn, name_fn, cat_fn, kind_fn


def _vcat(i):
    return {"TC1": "TC", "TCS1": "TC", "TC4": "TC", "TC12": "TC", "TC32": "TC", "TC300": "TC", "TR": "TR", "PTT": "TR", "NTR": "NTR", "PTN": "NTR"}[i["elem"]]


def _vkind(i):
    return i["flavour"]


def run_one(i, deadline_s, eng=None, ctx=None):
    """Run one instantiation; returns dict(result json | crash info).  The deadline is the check's global one: an
    instantiation that starts late gets what is left (at least 20 s) and reports itself incomplete if that is not enough."""
    eng = eng or E1ENG
    binp = eng.build(i)
    if ctx is not None:
        deadline_s = max(20, ctx.time_left() - 45)
    os.makedirs(vlib.BUILD, exist_ok=True)
    fd, crumb = tempfile.mkstemp(prefix="crumb-", dir=vlib.BUILD)
    os.close(fd)
    cmd = [binp, "--explore", "--K", str(i["K"]), "--L", str(i["L"]), "--reloc", str(i.get("reloc", 0)), "--crumb", crumb,
           "--deadline", str(int(deadline_s)), "--merge-check", str(i.get("merge_check", 150))] + i["opts"]
    rc, out, err = vlib.run(cmd, timeout=deadline_s + 120)
    res = None
    if rc == 0:
        try:
            res = json.loads(out)
        except ValueError:
            res = None
    info = {"inst": i, "bin": binp, "rc": rc, "res": res}
    if res is None:
        try:
            with open(crumb, "rb") as fh:
                raw = fh.read().split(b"\0")[0].decode(errors="replace")
        except OSError:
            raw = ""
        lines = raw.split("\n")
        info["crash_hist"] = lines[0] if lines else ""
        m = re.search(r"SUMMARY: (.*)", err)
        info["crash_summary"] = (m.group(1) if m else err.strip().split("\n")[-1] if err.strip() else "rc=%d" % rc)[:300]
        info["stderr_tail"] = err[-3000:]
    try:
        os.unlink(crumb)
    except OSError:
        pass
    return info


def replay_cmd(info_bin, i, ops, faultk=0):
    return "%s --replay '%s' --K %d --L %d --reloc %d%s" % (info_bin, ops, i["K"], i["L"], i.get("reloc", 0), (" --faultk %d" % faultk) if faultk else "")


def confirm(binp, i, ops):
    """Re-execute one history without the explorer, twice; returns (failed_both_times, transcript)."""
    outs = []
    for _ in range(2):
        rc, out, err = vlib.run([binp, "--replay", ops, "--K", str(i["K"]), "--L", str(i["L"]), "--reloc", str(i.get("reloc", 0))], timeout=120)
        outs.append((rc, re.sub(r"0x[0-9a-f]+", "0x", out), err[-1500:]))
    # identical observations are required for oracle failures (rc 1); when the process dies (sanitizer report, signal,
    # watchdog) the two runs must both die, the exact signal / partial output may differ (use-after-free is UB)
    died = [o[0] not in (0, 1) or "FAIL [" not in o[1] for o in outs]
    same = (outs[0][0] == outs[1][0] and outs[0][1] == outs[1][1]) or (all(died) and outs[0][0] != 0 and outs[1][0] != 0)
    return (outs[0][0] != 0 and same), same, outs[0]


def norm(msg):
    return re.sub(r"\d+", "#", re.sub(r"0x[0-9a-f]+", "P", msg))


SRC_NAMES = ["ptr", "stdvec", "deque", "list", "fwdlist", "input", "move_ptr", "move_list", "conv"]


def opkind(op):
    """operation kind for signatures; range operations carry their iterator kind"""
    f = op.split(":")
    k = f[0]
    if len(f) == 7:
        # faulted operation: keep the position class out, mark the fault
        k2 = opkind(":".join(f[:6]))
        return k2 + "!fault"
    try:
        if k == "INS_RANGE":
            return k + "/" + SRC_NAMES[int(f[5])]
        if k in ("ASSIGN_RANGE", "APPEND_RANGE", "CTOR_RANGE"):
            return k + "/" + SRC_NAMES[int(f[4])]
    except (ValueError, IndexError):
        pass
    return k


def explore(ctx, matrix, want_tags, engine="E1", any_fail_counts=False, eng=None, only_faulted=False, only_claiming=False, any_fail_on_ops=None):
    """Run the matrix; record violations whose tags intersect want_tags (or every failure if any_fail_counts)."""
    eng = eng or E1ENG
    name = eng.name
    per_deadline = max(60, ctx.time_left() - 90)
    vlib.pmap(eng.build, matrix)  # parallel builds (BuildError propagates)
    infos = vlib.pmap(lambda i: run_one(i, per_deadline, eng, ctx), sorted(matrix, key=lambda i: -i.get('K', 1) * 100 - i.get('L', 0)))
    tot = dict(states=0, transitions=0, outcomes=0, violating=0)
    samples, insts, exhaustive = [], [], True
    maxdepth = 0
    cands = {}
    for info in infos:
        i = info["inst"]
        res = info["res"]
        if res is None:
            ops = info.get("crash_hist", "")
            okind = opkind(ops.split(" ")[-1]) if ops else "?"
            cat = eng.cat(i)
            sig = "%s|%s|%s|%s|crash|%s" % (engine, eng.kind(i), cat, okind, norm(info["crash_summary"].split(" in ")[0]))
            failed, same, tr = confirm(info["bin"], i, ops) if ops else (True, True, (info["rc"], "", ""))
            if not same:
                raise RuntimeError("nondeterministic replay of crash: %s" % ops)
            if failed:
                ctx.violation(sig, {"engine": engine, "instantiation": i, "history_and_op": ops, "observed": info["crash_summary"],
                                    "stderr": info.get("stderr_tail", ""), "cmd": replay_cmd(info["bin"], i, ops)},
                              "process died (%s) executing: %s" % (info["crash_summary"], ops[-300:]))
            else:
                raise RuntimeError("crash did not reproduce in replay: %s / %s" % (ops, info["crash_summary"]))
            exhaustive = False
            insts.append({"name": name(i), "K": i["K"], "L": i["L"], "crashed": True})
            continue
        nd = res.get("nondeterminism")
        if nd and (nd.startswith("prefix replay diverged") or nd.startswith("canon-on-replay failed")) and " via " in nd:
            # Two executions of ONE history from fresh objects observed different states.  Every input of an execution is
            # owned by the harness (values, allocator, faults; no clock, no randomness), so the difference comes from the
            # code under test reading memory it did not write (uninitialised or stale).  That is a divergence from
            # std::vector / std::set under every property, and it is reported as one (it never occurs on a correct tree;
            # the harness's own self-check failures - unsound abstraction, fault that did not fire - stay harness errors).
            hist = nd.split(" via ", 1)[1].split(" got ")[0].strip()
            ctx.violation("%s|%s|%s|%s|nondeterministic" % (engine, eng.kind(i), eng.cat(i), opkind(hist.split(" ")[-1]) if hist else "?"),
                          {"engine": engine, "instantiation": i, "history": hist, "observed": nd, "cmd": replay_cmd(info["bin"], i, hist) + "   (run it twice and compare)"},
                          "the same history observed from fresh objects gave two different states: " + nd[:300])
            exhaustive = False
            insts.append({"name": name(i), "K": i["K"], "L": i["L"], "nondeterministic": True})
            continue
        if nd:
            raise RuntimeError("explorer reports nondeterminism: " + nd)
        tot["states"] += res["states"]
        tot["transitions"] += res["transitions"]
        tot["outcomes"] += res["distinct_outcomes"]
        tot["violating"] += res["violating_transitions"]
        maxdepth = max(maxdepth, res["max_depth"])
        exhaustive = exhaustive and res["complete"]
        tot["merges"] = tot.get("merges", 0) + res.get("merges_checked", 0)
        insts.append({"name": name(i), "K": i["K"], "L": i["L"], "reloc": i.get("reloc", 0), "states": res["states"], "transitions": res["transitions"],
                      "max_depth": res["max_depth"], "complete": res["complete"], "distinct_outcomes": res["distinct_outcomes"]})
        for s in res["samples"][:2]:
            samples.append({"instantiation": name(i), "history | op -> key": s})
        if res.get("static_fail") and ("C14" in want_tags or any_fail_counts):
            ctx.violation("%s|%s|%s|static|%s" % (engine, eng.kind(i), res["instantiation"]["cat"], norm(res["static_fail"])),
                          {"engine": engine, "instantiation": i, "observed": res["static_fail"]}, res["static_fail"])
        tot["fault_transitions"] = tot.get("fault_transitions", 0) + res.get("fault_transitions", 0)
        if only_claiming and not res.get("claims_reloc"):
            continue  # nothing was relocated in this instantiation: its failures belong to other properties
        for v in res["violations"]:
            tags = set(v["tags"].split(","))
            on_op = any_fail_on_ops is not None and re.search(any_fail_on_ops, v["op"].split(":")[0]) is not None
            if not (any_fail_counts or on_op or (tags & set(want_tags))):
                continue
            if only_faulted and "!" not in (v["hist"] + v["op"]):
                continue  # no injected fault on this history: belongs to another property
            sig = "%s|%s|%s|%s|%s" % (engine, eng.kind(i), res["instantiation"]["cat"], opkind(v["op"]), norm(v["msg"]))
            if sig in cands:
                continue
            cands[sig] = (info, v)
    # classify first (known findings need no replay), then confirm the rest by replaying them without the explorer
    todo = []
    for sig, (info, v) in cands.items():
        if any(vlib._sig_match(k.get("signature", ""), sig) for k in ctx.known):
            ctx.violation(sig, {}, "")
        elif len(todo) < 24:
            todo.append((sig, info, v))
    def conf(t):
        sig, info, v = t
        ops = (v["hist"] + " " + v["op"]).strip()
        return confirm(info["bin"], info["inst"], ops)
    for (sig, info, v), (failed, same, tr) in zip(todo, vlib.pmap(conf, todo)):
        ops = (v["hist"] + " " + v["op"]).strip()
        if not same:
            raise RuntimeError("nondeterministic replay: %s" % ops)
        if not failed:
            raise RuntimeError("violation did not reproduce in replay: %s" % ops)
        i = info["inst"]
        ctx.violation(sig, {"engine": engine, "instantiation": i, "history": v["hist"], "op": v["op"], "state": v["state"], "observed": v["msg"],
                            "tags": v["tags"], "transcript": tr[1][-2000:], "cmd": replay_cmd(info["bin"], i, ops)}, "%s  after: %s | %s" % (v["msg"], v["hist"][-200:], v["op"]))
    if len(cands) > len(todo):
        ctx.notes.append("%d distinct violation signatures seen, %d replayed and reported" % (len(cands), len(todo)))
    cov = {
        "states": tot["states"], "transitions": tot["transitions"], "traces_validated_against_impl": tot["transitions"],
        "samples": samples[:12], "instantiations": insts, "max_depth": maxdepth, "distinct_outcomes": tot["outcomes"],
        "violating_transitions_all_monitors": tot["violating"], "exhaustive": exhaustive, "fault_transitions": tot.get("fault_transitions", 0), "state_merges_whose_futures_were_compared": tot.get("merges", 0),
        "bound": "every history whose container sizes stay <= L (per instantiation), pool size K, to the BFS fixpoint",
    }
    return cov


ASSUME = [
    "the implementation is its own transition function: every transition is an execution of the amc headers in /repo/include compared with the reference model (std::vector<int> + ledgers)",
    "states are merged by a canonical key (size, capacity, inline?, entitlement bit, raw size words, joint rank pattern of the values); data independence of vector code; canon-on-replay checked for every expanded state",
    "sizes bounded by L, pool size K, one element type/size_type/allocator per instantiation; g++ 12 + libstdc++, ASan/UBSan build",
    "always-equal allocators; element moves are noexcept",
]


E1ENG = Eng("E1", build, name, _vcat, _vkind)


def relevant(pid, i):
    """Which instantiations can say anything about a property."""
    if pid == "C02":
        return i["elem"] in TRACKED
    if pid == "C05":
        return i["flavour"] != "vector"
    if pid == "C06":
        return i["alloc"].startswith("ledger") and not i["flavour"].startswith("fixed")
    return True


def merge_cov(a, b):
    """combine the coverage records of two explorations (vector + set engines)"""
    c = dict(a)
    for k in ("states", "transitions", "traces_validated_against_impl", "distinct_outcomes", "violating_transitions_all_monitors", "fault_transitions", "state_merges_whose_futures_were_compared"):
        c[k] = a[k] + b[k]
    c["samples"] = a["samples"][:6] + b["samples"][:6]
    c["instantiations"] = a["instantiations"] + b["instantiations"]
    c["max_depth"] = max(a["max_depth"], b["max_depth"])
    c["exhaustive"] = a["exhaustive"] and b["exhaustive"]
    return c
