// C13 -- swap2 between two vector flavours: explicit-state BFS over a heterogeneous pair (A a; B b).
//   A/B selected by -DA_FLAVOUR/-DA_N/-DA_ST/-DA_ALLOC and -DB_... (same encoding as vec_cfg.hpp), element by -DCFG_ELEM.
// Alphabet: shaping operations on either container (push_back, pop_back, clear, reserve, shrink_to_fit, adopt a heap
// buffer from an amc::vector, fill to a given size in --big mode) and a.swap2(b) / b.swap2(a) from every reachable pair
// state.  Oracle: exchange impossible (size exceeds the other's fixed capacity or size_type) => exception and both
// sequences unchanged; otherwise sequences exchanged; ledgers balanced; both operands stay usable (the BFS goes on).
#define CFG_FLAVOUR 0
#define CFG_N 0
#include <fcntl.h>
#include <sys/mman.h>
#include <unistd.h>

#include <csignal>
#include <chrono>
#include <map>
#include <sstream>
#include <unordered_map>

#include "vec_cfg.hpp"
#include "win.hpp"

using cfg::T;
typedef vf::El<T> E;

template <int FL, int N, class ST, int AL>
struct Pick {
  template <class U>
  using A0 = amc::allocator<U>;
  typedef typename std::conditional<AL == 1, std::allocator<T>, typename std::conditional<AL == 2, vf::LedgerStd<T>, typename std::conditional<AL == 3, cfg::LedgerRealloc<T>, amc::allocator<T> >::type>::type>::type Alloc;
  typedef typename std::conditional<FL == 0, amc::vector<T, Alloc, ST>,
                                    typename std::conditional<FL == 1, amc::SmallVector<T, (N > 0 ? N : 1), Alloc, ST>,
                                                              amc::FixedCapacityVector<T, (N > 0 ? N : 1), amc::vec::ExceptionGrowingPolicy, ST> >::type>::type V;
  typedef amc::vector<T, Alloc, ST> Donor;
  static constexpr bool fixed = FL == 2;
  static constexpr bool small = FL == 1;
  static constexpr long n = FL == 0 ? 0 : N;
  static constexpr unsigned long long limit = FL == 2 ? (unsigned long long)N : (unsigned long long)std::numeric_limits<ST>::max();
};
#ifndef A_FLAVOUR
#define A_FLAVOUR 1
#define A_N 3
#define A_ST uint32_t
#define A_ALLOC 0
#define B_FLAVOUR 1
#define B_N 5
#define B_ST uint32_t
#define B_ALLOC 0
#endif
typedef Pick<A_FLAVOUR, A_N, A_ST, A_ALLOC> PA;
typedef Pick<B_FLAVOUR, B_N, B_ST, B_ALLOC> PB;
typedef PA::V VA;
typedef PB::V VB;

enum Kind { PUSH, POP, CLEAR, RESERVE, SHRINK, ADOPT, FILL, SWAP2_AB, SWAP2_BA, KIND_COUNT };
static const char *kn[] = {"PUSH", "POP", "CLEAR", "RESERVE", "SHRINK", "ADOPT", "FILL", "SWAP2_AB", "SWAP2_BA"};
struct Op {
  int k = 0, side = 0, a = 0;
};
static std::string op_str(const Op &o) {
  char b[64];
  std::snprintf(b, sizeof b, "%s:%d:%d", kn[o.k], o.side, o.a);
  return b;
}
static bool op_parse(const std::string &s, Op &o) {
  std::stringstream ss(s);
  std::string t;
  std::vector<std::string> f;
  while (std::getline(ss, t, ':')) f.push_back(t);
  if (f.size() != 3) return false;
  o.k = -1;
  for (int k = 0; k < KIND_COUNT; ++k)
    if (f[0] == kn[k]) o.k = k;
  o.side = std::atoi(f[1].c_str());
  o.a = std::atoi(f[2].c_str());
  return o.k >= 0;
}
static std::string hist_str(const std::vector<Op> &h) {
  std::string s;
  for (size_t i = 0; i < h.size(); ++i) s += (i ? " " : "") + op_str(h[i]);
  return s;
}

struct World {
  alignas(64) unsigned char ba[sizeof(VA)];
  alignas(64) unsigned char bb[sizeof(VB)];
  VA &a() { return *std::launder(reinterpret_cast<VA *>(ba)); }
  VB &b() { return *std::launder(reinterpret_cast<VB *>(bb)); }
  std::vector<int> ma, mb;
  int next = 0;
};
static World g_w;
static int L = 4;
static std::vector<int> g_big;  // FILL sizes (big mode)

template <class V>
static bool is_inline(const V &v) {
  const char *d = reinterpret_cast<const char *>(v.data()), *o = reinterpret_cast<const char *>(&v);
  return d >= o && d < o + sizeof(V);
}
template <class V>
static std::vector<int> vals(const V &v) {
  std::vector<int> r;
  for (const T &e : v) r.push_back(E::val(e));
  return r;
}

template <class P, class V>
static void shape(V &v, std::vector<int> &m, const Op &op, void *raw) {
  const char *nm = kn[op.k];
  switch (op.k) {
    case PUSH: {
      int x = ++g_w.next % 200 + 1;
      T t = E::make(x);
      rt::win([&] { v.push_back(t); });
      if (rt::W().exc) vf::fail("C13", "%s threw unexpectedly", nm);
      else m.push_back(x);
    } break;
    case POP:
      v.pop_back();
      m.pop_back();
      break;
    case CLEAR:
      v.clear();
      m.clear();
      break;
    case RESERVE:
      rt::win([&] { v.reserve((typename V::size_type)op.a); });
      if (rt::W().exc && !(P::fixed && op.a > P::n)) vf::fail("C13", "reserve threw unexpectedly");
      break;
    case SHRINK:
      v.shrink_to_fit();
      break;
    case ADOPT: {
      // replace the SmallVector by one that adopted the heap buffer of an amc::vector holding op.a elements
      if constexpr (P::small) {
        typename P::Donor d;
        std::vector<int> dm;
        for (int q = 0; q < op.a; ++q) {
          int x = ++g_w.next % 200 + 1;
          d.push_back(E::make(x));
          dm.push_back(x);
        }
        d.shrink_to_fit();
        v.~V();
        ::new (raw) V(std::move(d));
        m = dm;
      }
    } break;
    case FILL: {
      v.clear();
      m.clear();
      for (int q = 0; q < op.a; ++q) {
        int x = q % 200 + 1;
        v.push_back(E::make(x));
        m.push_back(x);
      }
    } break;
    default:
      break;
  }
}

static void apply(World &w, const Op &op) {
  if (op.k == SWAP2_AB || op.k == SWAP2_BA) {
    const unsigned long long sa = w.ma.size(), sb = w.mb.size();
    const bool impossible = sa > PB::limit || sb > PA::limit;
    // C07: two heap-backed vectors with the same allocator type, whose capacities fit each other's size_type, hand over
    // their buffers: data() values are exchanged and no element operation is performed
    const void *da = w.a().data(), *db = w.b().data();
    const unsigned long long ca0 = w.a().capacity(), cb0 = w.b().capacity();
    const bool heap_a = !PA::fixed && !is_inline(w.a()) && w.a().capacity() > 0, heap_b = !PB::fixed && !is_inline(w.b()) && w.b().capacity() > 0;
    const bool can_hand_over = heap_a && heap_b && std::is_same<PA::Alloc, PB::Alloc>::value &&
                               (unsigned long long)w.a().capacity() <= (unsigned long long)std::numeric_limits<B_ST>::max() &&
                               (unsigned long long)w.b().capacity() <= (unsigned long long)std::numeric_limits<A_ST>::max();
    // C05: an inline SmallVector that exchanges with an operand holding no heap buffer and receives at most N elements
    // stays inline, reports capacity N and requests no memory
    const bool inl_a = PA::small && is_inline(w.a()) && (long)w.a().capacity() == PA::n, inl_b = PB::small && is_inline(w.b()) && (long)w.b().capacity() == PB::n;
    const bool a_fits = sb <= (unsigned long long)w.a().capacity(), b_fits = sa <= (unsigned long long)w.b().capacity();  // nobody has to grow
    vf::L().reset_counters();
    rt::win([&] {
      if (op.k == SWAP2_AB) w.a().swap2(w.b());
      else w.b().swap2(w.a());
    });
    if (impossible) {
      if (!rt::W().exc) vf::fail("C13", "swap2 of sizes %llu/%llu is impossible (limits %llu/%llu) but did not throw", sa, sb, PA::limit, PB::limit);
    } else {
      if (rt::W().exc) vf::fail("C13", "swap2 of sizes %llu/%llu threw (kind %d) although the exchange is possible", sa, sb, rt::W().exc_kind);
      else {
        std::swap(w.ma, w.mb);
        if (inl_a && !heap_b && (long)sb <= PA::n && (!is_inline(w.a()) || (long)w.a().capacity() != PA::n || (b_fits && rt::W().mallocs != 0)))
          vf::fail("C05", "swap2 gave an inline SmallVector<%ld> %llu elements from an operand without heap buffer: inline %d capacity %ld heap requests %ld", PA::n, sb, (int)is_inline(w.a()), (long)w.a().capacity(), rt::W().mallocs);
        if (inl_b && !heap_a && (long)sa <= PB::n && (!is_inline(w.b()) || (long)w.b().capacity() != PB::n || (a_fits && rt::W().mallocs != 0)))
          vf::fail("C05", "swap2 gave an inline SmallVector<%ld> %llu elements from an operand without heap buffer: inline %d capacity %ld heap requests %ld", PB::n, sa, (int)is_inline(w.b()), (long)w.b().capacity(), rt::W().mallocs);
        if (can_hand_over) {
          if (w.a().data() != db || w.b().data() != da) vf::fail("C07", "swap2 of two heap-backed vectors did not hand over the buffers");
          else if (vf::L().elem_ops() != 0) vf::fail("C07", "swap2 of two heap-backed vectors performed %ld element operations", vf::L().elem_ops());
          // a block changes owner together with its capacity (what the new owner hands back to the allocator)
          if ((unsigned long long)w.a().capacity() != cb0 || (unsigned long long)w.b().capacity() != ca0)
            vf::fail("C13,C06,C07", "swap2 of two heap-backed vectors with capacities %llu/%llu left capacities %llu/%llu", ca0, cb0, (unsigned long long)w.a().capacity(), (unsigned long long)w.b().capacity());
        }
      }
    }
    return;
  }
  if (op.side == 0) shape<PA>(w.a(), w.ma, op, w.ba);
  else shape<PB>(w.b(), w.mb, op, w.bb);
}

template <class P>
static void enumerate_side(int side, const std::vector<int> &m, std::vector<Op> &out, bool big) {
  auto add = [&](int k, int a = 0) {
    Op o;
    o.k = k;
    o.side = side;
    o.a = a;
    out.push_back(o);
  };
  const long lim = P::fixed ? std::min<long>(L, P::n) : L;
  if ((long)m.size() < lim) add(PUSH);
  if (!m.empty() && (long)m.size() <= L + 1) add(POP);  // big sizes (FILL) are only exchanged, cleared or shrunk
  add(CLEAR);
  add(SHRINK);
  for (int n = 0; n <= (P::fixed ? P::n : L + 1); ++n) add(RESERVE, n);
  if (P::small)
    for (int n = 1; n <= std::min<long>(L, 3); ++n) add(ADOPT, n);
  if (big)
    for (int n : g_big)
      if (!P::fixed && (unsigned long long)n <= P::limit) add(FILL, n);
}

static uint64_t g_digest;
static void dig(long x) { g_digest = (g_digest ^ (uint64_t)x) * 1099511628211ULL; }

template <class V>
static void observe_one(const V &v, const std::vector<int> &m, const char *which, long &live) {
  live += (long)v.size() * vf::ObjsPer<T>::value;
  dig((long)v.size());
  if ((long)v.size() != (long)m.size()) {
    vf::fail("C13", "%s: size %ld, expected %zu", which, (long)v.size(), m.size());
    return;
  }
  if (!((long)v.size() <= (long)v.capacity())) vf::fail("C13", "%s: size %ld > capacity %ld", which, (long)v.size(), (long)v.capacity());
  long x = 0;
  for (const T &e : v) {
    const char *why = nullptr;
    if (!E::sane(e, &why)) {
      vf::fail("C13", "%s element %ld: %s", which, x, why);
      return;
    }
    if (E::val(e) != m[x]) {
      vf::fail("C13", "%s element %ld is %d, expected %d", which, x, E::val(e), m[x]);
      return;
    }
    dig(E::val(e));
    ++x;
  }
}

template <class V>
static std::string key_one(const V &v) {
  char b[64];
  std::snprintf(b, sizeof b, "s%ldc%ldi%d", (long)v.size(), (long)v.capacity(), (int)is_inline(v));
  return b;
}

struct RunResult {
  std::string key_before, key_after;
  int nfail = 0;
  uint64_t digest = 0;
};

// watchdog: one execution (history + operation) that does not finish within 30 s is a hang (a corrupted container can
// send an algorithm into an endless loop); it is reported like a crash, with the breadcrumb naming the execution
static void on_alarm(int) {
  static const char msg[] = "\nSUMMARY: watchdog: execution did not terminate within 30 s (hang)\n";
  ssize_t r = write(2, msg, sizeof msg - 1);
  (void)r;
  _exit(97);
}

static RunResult run_once(const std::vector<Op> &hist, const Op *op, std::vector<Op> *enabled, bool big) {
  RunResult r;
  alarm(30);
  World &w = g_w;
  vf::L().reset();
  vf::AL().reset();
  g_digest = 1469598103934665603ULL;
  w.ma.clear();
  w.mb.clear();
  w.next = 0;
  ::new (w.ba) VA();
  ::new (w.bb) VB();
  for (const Op &h : hist) apply(w, h);
  r.key_before = key_one(w.a()) + "|" + key_one(w.b());
  if (enabled) {
    enabled->clear();
    enumerate_side<PA>(0, w.ma, *enabled, big);
    enumerate_side<PB>(1, w.mb, *enabled, big);
    Op s1, s2;
    s1.k = SWAP2_AB;
    s2.k = SWAP2_BA;
    enabled->push_back(s1);
    enabled->push_back(s2);
  }
  if (op) {
    apply(w, *op);
    long live = 0;
    observe_one(w.a(), w.ma, "first operand", live);
    observe_one(w.b(), w.mb, "second operand", live);
    if (E::tracked && vf::L().live() != live) vf::fail("C13", "%d element objects alive, the two vectors hold %ld (leak, loss or duplicate)", vf::L().live(), live);
    r.key_after = key_one(w.a()) + "|" + key_one(w.b());
  }
  w.a().~VA();
  w.b().~VB();
  if (E::tracked && vf::L().live() != 0) vf::fail("C13", "%d element objects alive after both vectors were destroyed", vf::L().live());
  if (vf::AL().n != 0) vf::fail("C13", "%d allocator blocks outstanding after both vectors were destroyed", vf::AL().n);
  r.nfail = vf::L().nfail;
  r.digest = g_digest;
  alarm(0);
  return r;
}

static char *g_crumb = nullptr;
static void crumb(const std::vector<Op> &h, const Op *op) {
  if (!g_crumb) return;
  std::string s = hist_str(h);
  if (op) s += (s.empty() ? "" : " ") + op_str(*op);
  s += "\n";
  if (s.size() > 8000) s.resize(8000);
  std::memcpy(g_crumb, s.c_str(), s.size() + 1);
}
static std::string jesc(const std::string &s) {
  std::string r;
  for (char c : s) {
    if (c == '"' || c == '\\') { r += '\\'; r += c; }
    else if ((unsigned char)c < 32) r += ' ';
    else r += c;
  }
  return r;
}

int main(int argc, char **argv) {
  rt::install_hooks();
  std::signal(SIGALRM, on_alarm);
  bool explore = false, big = false;
  std::string replay;
  double deadline = 1e18;
  for (int a = 1; a < argc; ++a) {
    std::string s = argv[a];
    auto nxt = [&] { return a + 1 < argc ? std::string(argv[++a]) : std::string(); };
    if (s == "--explore") explore = true;
    else if (s == "--replay") replay = nxt();
    else if (s == "--L") L = std::atoi(nxt().c_str());
    else if (s == "--K" || s == "--reloc") nxt();
    else if (s == "--big") {
      big = true;
      std::stringstream ss(nxt());
      std::string t;
      while (std::getline(ss, t, ',')) g_big.push_back(std::atoi(t.c_str()));
    } else if (s == "--deadline") deadline = std::chrono::duration<double>(std::chrono::steady_clock::now().time_since_epoch()).count() + std::atof(nxt().c_str());
    else if (s == "--crumb") {
      std::string p = nxt();
      int fd = open(p.c_str(), O_RDWR | O_CREAT | O_TRUNC, 0644);
      if (fd >= 0 && ftruncate(fd, 8192) == 0) {
        void *m = mmap(nullptr, 8192, PROT_READ | PROT_WRITE, MAP_SHARED, fd, 0);
        if (m != MAP_FAILED) g_crumb = static_cast<char *>(m);
      }
    }
  }
  if (!replay.empty()) {
    std::vector<Op> h;
    std::stringstream ss(replay);
    std::string t;
    while (ss >> t) {
      Op o;
      if (!op_parse(t, o)) return 2;
      h.push_back(o);
    }
    if (h.empty()) return 2;
    Op last = h.back();
    h.pop_back();
    RunResult r = run_once(h, &last, nullptr, big);
    std::printf("history: %s\nop: %s\nkey_before: %s\nkey_after: %s\n", hist_str(h).c_str(), op_str(last).c_str(), r.key_before.c_str(), r.key_after.c_str());
    for (int f = 0; f < vf::L().nfail; ++f) std::printf("FAIL [%s] %s\n", vf::L().fails[f].tags, vf::L().fails[f].msg);
    return r.nfail ? 1 : 0;
  }
  if (!explore) return 2;
  struct State {
    int parent;
    Op op;
    int depth;
  };
  std::unordered_map<std::string, int> seen;
  std::vector<State> states;
  std::vector<std::string> keys;
  auto history = [&](int id) {
    std::vector<Op> h;
    while (id > 0) {
      h.push_back(states[id].op);
      id = states[id].parent;
    }
    std::reverse(h.begin(), h.end());
    return h;
  };
  {
    RunResult r0 = run_once({}, nullptr, nullptr, big);
    seen[r0.key_before] = 0;
    states.push_back(State{-1, Op(), 0});
    keys.push_back(r0.key_before);
  }
  long transitions = 0, viol_total = 0, swaps = 0, swaps_impossible = 0;
  std::map<uint64_t, int> digests;
  struct VRec {
    std::string tags, msg, hist, op, key;
  };
  std::vector<VRec> viols;
  std::map<std::string, int> sigs;
  std::vector<std::string> samples;
  bool complete = true;
  int maxdepth = 0;
  std::string nondet;
  std::vector<Op> enabled;
  for (size_t cur = 0; cur < states.size(); ++cur) {
    if (std::chrono::duration<double>(std::chrono::steady_clock::now().time_since_epoch()).count() > deadline) {
      complete = false;
      break;
    }
    std::vector<Op> h = history((int)cur);
    crumb(h, nullptr);
    RunResult rp = run_once(h, nullptr, &enabled, big);
    if (rp.key_before != keys[cur] || rp.nfail) {
      nondet = "canon-on-replay failed at " + keys[cur];
      break;
    }
    std::vector<Op> ops = enabled;
    for (const Op &op : ops) {
      crumb(h, &op);
      RunResult r = run_once(h, &op, nullptr, big);
      ++transitions;
      digests[r.digest] = 1;
      if (op.k >= SWAP2_AB) {
        ++swaps;
        if (r.key_after == r.key_before) ++swaps_impossible;  // includes equal-shaped operands; informative only
      }
      if (samples.size() < 6 && op.k >= SWAP2_AB && (swaps % 37) == 1) samples.push_back(hist_str(h) + " | " + op_str(op) + " -> " + r.key_after);
      if (r.nfail) {
        ++viol_total;
        std::string tags_seen;  // the first failure of every distinct tag set
        for (int f = 0; f < vf::L().nfail; ++f) {
          if (tags_seen.find(std::string("|") + vf::L().fails[f].tags + "|") != std::string::npos) continue;
          tags_seen += std::string("|") + vf::L().fails[f].tags + "|";
          std::string norm = std::string(kn[op.k]) + "|" + vf::L().fails[f].tags + "|";
          for (const char *c = vf::L().fails[f].msg; *c; ++c) norm += (*c >= '0' && *c <= '9') ? '#' : *c;
          if (sigs.emplace(norm, 1).second && viols.size() < 100) viols.push_back(VRec{vf::L().fails[f].tags, vf::L().fails[f].msg, hist_str(h), op_str(op), keys[cur]});
        }
        continue;
      }
      if (seen.find(r.key_after) == seen.end()) {
        seen.emplace(r.key_after, (int)states.size());
        states.push_back(State{(int)cur, op, states[cur].depth + 1});
        keys.push_back(r.key_after);
        maxdepth = std::max(maxdepth, states[cur].depth + 1);
      }
    }
  }
  std::printf("{\"instantiation\":{\"cat\":\"%s\",\"elem\":\"%s\"},\"K\":2,\"L\":%d,\"reloc\":0,\"states\":%zu,\"transitions\":%ld,\"max_depth\":%d,\"distinct_outcomes\":%zu,\"complete\":%s,\"violating_transitions\":%ld,\"swap2_calls\":%ld,\"claims_reloc\":false,\"static_fail\":\"\",\"nondeterminism\":\"%s\",\"fault_transitions\":0,\n",
              E::cat(), E::name(), L, states.size(), transitions, maxdepth, digests.size(), complete ? "true" : "false", viol_total, swaps, jesc(nondet).c_str());
  std::printf("\"samples\":[");
  for (size_t x = 0; x < samples.size(); ++x) std::printf("%s\"%s\"", x ? "," : "", jesc(samples[x]).c_str());
  std::printf("],\n\"violations\":[");
  for (size_t x = 0; x < viols.size(); ++x)
    std::printf("%s{\"tags\":\"%s\",\"msg\":\"%s\",\"hist\":\"%s\",\"op\":\"%s\",\"state\":\"%s\"}", x ? ",\n" : "", viols[x].tags.c_str(), jesc(viols[x].msg).c_str(), jesc(viols[x].hist).c_str(), viols[x].op.c_str(), jesc(viols[x].key).c_str());
  std::printf("]}\n");
  return 0;
}
