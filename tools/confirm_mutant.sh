#!/bin/bash
# confirm_mutant.sh <worktree> <diff> <demo.cpp>: in a scratch worktree (never /repo): the change applies, the repository's
# own tests still pass with it, the demonstration fails with it and passes without it.
set -u
WT=$1; DIFF=$2; DEMO=$3
cd "$WT" || exit 2
git checkout -q -- . ; rm -rf _build
git apply "$DIFF" || { echo "APPLY-FAILED"; exit 2; }
/verif/bin/baseline "$WT" ; T=$?
SH="${DEMO%.cpp}.sh"
rundemo() {
  if [ -f "$SH" ]; then ( cd "$WT" && timeout 900 bash "$SH" >/dev/null 2>&1 ); return $?; fi
  g++ -std=c++17 -g -O1 -fsanitize=address,undefined -DAMC_NONSTD_FEATURES -I include "$DEMO" -o /tmp/demo.$$ 2>/tmp/demo.$$.log || { echo "DEMO-BUILD-FAILED"; tail -5 /tmp/demo.$$.log; return 99; }
  ASAN_OPTIONS=detect_leaks=0 timeout 120 /tmp/demo.$$ >/dev/null 2>&1
}
rundemo; WITH=$?
git checkout -q -- .
rundemo; WITHOUT=$?
rm -rf _build /tmp/demo.$$ /tmp/demo.$$.log
echo "tests_rc=$T demo_with_change=$WITH demo_clean=$WITHOUT"
[ $T -eq 0 ] && [ $WITH -ne 0 ] && [ $WITHOUT -eq 0 ]
