// C16 -- stand-alone replayer (C++11, public API only, NO -fno-access-control): enumerates EVERY operation sequence up
// to a depth over a fixed alphabet for a list of container instantiations and prints a transcript digest per
// (container, first operation) bucket.  Built under every (-std, extras on/off, NDEBUG on/off, -O) combination; all
// builds offering the same feature set must print byte-identical output.
//   replayer --features <b|be|b17|be17> --depth D                    bucket digests
//   replayer --features F --depth D --dump <container> <first-op>    one transcript line per sequence of that bucket
// Observations per step: exception kind, returned position/bool/count, size, capacity, full contents; at sequence end:
// live element objects (must equal the sizes) and ledger failures.  Element-operation COUNTS are deliberately not part
// of the transcript (copy elision legitimately differs between language levels).
#include <amc/fixedcapacityvector.hpp>
#include <amc/flatset.hpp>
#include <amc/smallvector.hpp>
#include <amc/vector.hpp>
#ifdef AMC_SMALLSET
#include <amc/smallset.hpp>
#endif

#include <cstdio>
#include <cstring>
#include <functional>
#include <set>
#include <string>
#include <vector>

#include "../elems.hpp"

typedef unsigned long long u64;
static u64 g_h;
static std::string g_line;  // transcript of the current sequence (only built in dump mode)
static bool g_dump = false;
static long g_mirror_fail = 0;         // steps on which an amc container and its std::vector mirror disagreed
static std::string g_mirror_first;     // the first sequence on which that happened
static void obs(long x) {
  g_h = (g_h ^ (u64)(x + 0x9e37)) * 1099511628211ULL;
  if (g_dump) {
    char b[24];
    std::snprintf(b, sizeof b, "%ld,", x);
    g_line += b;
  }
}

enum Feat { F_BASE = 0, F_EXTRAS = 1, F_CXX17 = 2 };
static int g_allowed = 0;

template <class T>
struct Mk {
  static T make(int v) { return vf::El<T>::make(v); }
  static int val(const T &e) { return vf::El<T>::val(e); }
};

/// trivially copyable element of S bytes (S = 3, 6: sizes that neither divide nor exceed a pointer); every byte carries
/// the value so that a partially copied or overlapped element reads back differently
template <int S>
struct Blob {
  unsigned char b[S];
  bool operator==(const Blob &o) const { return std::memcmp(b, o.b, S) == 0; }
  bool operator<(const Blob &o) const { return b[0] < o.b[0]; }
};
namespace vf {
template <int S>
struct El<Blob<S> > {
  static const bool tracked = false;
  static Blob<S> make(int v) {
    Blob<S> r;
    for (int i = 0; i < S; ++i) r.b[i] = (unsigned char)(v + 7 * i);
    return r;
  }
  static int val(const Blob<S> &e) {
    for (int i = 1; i < S; ++i)
      if (e.b[i] != (unsigned char)(e.b[0] + 7 * i)) return -1000 - i;  // torn element
    return e.b[0];
  }
};
}  // namespace vf

/// the container under test lives between guard bytes: what a configuration writes outside its own object is observed
template <class C>
struct Guarded {
  unsigned char g0[32];
  C c;
  unsigned char g1[32];
  Guarded() {
    std::memset(g0, 0xA5, sizeof g0);
    std::memset(g1, 0xA5, sizeof g1);
  }
  long damaged() const {
    long n = 0;
    for (size_t i = 0; i < sizeof g0; ++i) n += (g0[i] != 0xA5) + (g1[i] != 0xA5);
    return n;
  }
};

// ---- vectors ---------------------------------------------------------------------------------------------------------
template <class V>
struct VecOps {
  typedef typename V::value_type T;
  struct OpDesc {
    const char *name;
    int feat;
  };
  static const OpDesc *table(int &n) {
    static const OpDesc t[] = {
        {"push_back_c", 0}, {"push_back_m", 0}, {"emplace_back", 0}, {"pop_back", 0}, {"insert_begin", 0}, {"insert_mid_m", 0},
        {"insert_end_own_elem", 0}, {"emplace_mid_own_elem", 0}, {"insert_mid_n2", 0}, {"insert_mid_range2", 0}, {"insert_begin_il2", 0},
        {"erase_begin", 0}, {"erase_mid", 0}, {"erase_mid_to_end", 0}, {"erase_empty_range", 0}, {"resize_plus2", 0}, {"resize_1", 0},
        {"resize_3_v", 0}, {"assign_2_v", 0}, {"assign_range3", 0}, {"clear", 0}, {"reserve_6", 0}, {"shrink_to_fit", 0}, {"swap_tmp", 0},
        {"copy_assign_tmp", 0}, {"move_assign_tmp", 0}, {"self_copy_assign", 0}, {"assign_il3", 0}, {"at_size", 0}, {"copy_construct", 0},
        {"move_construct", 0}, {"append_2", F_EXTRAS}, {"append_2_v", F_EXTRAS}, {"append_range2", F_EXTRAS}, {"pop_back_val", F_EXTRAS},
        {"swap2_vector", F_EXTRAS}, {"construct_3_v", 0},
    };
    n = (int)(sizeof t / sizeof t[0]);
    return t;
  }
  /// returns false when the operation is not enabled in this state (outside the contract)
  static bool apply(V &v, int op, int &ctr) {
    const long sz = (long)v.size();
    const long mid = sz / 2;
    long ret = -1;
    int exc = 0;
    try {
      switch (op) {
        case 0: { T t = Mk<T>::make(++ctr); v.push_back(t); } break;
        case 1: v.push_back(Mk<T>::make(++ctr)); break;
        case 2: { T t = Mk<T>::make(++ctr); ret = Mk<T>::val(v.emplace_back(std::move(t))); } break;
        case 3: if (sz == 0) return false; v.pop_back(); break;
        case 4: { T t = Mk<T>::make(++ctr); { typename V::iterator it_ = v.insert(v.begin(), t); ret = it_ - v.begin(); } } break;
        case 5: { typename V::iterator it_ = v.insert(v.begin() + mid, Mk<T>::make(++ctr)); ret = it_ - v.begin(); } break;
        case 6: if (sz == 0) return false; { typename V::iterator it_ = v.insert(v.end(), v[(typename V::size_type)mid]); ret = it_ - v.begin(); } break;
        case 7: if (sz == 0) return false; { typename V::iterator it_ = v.emplace(v.begin() + mid, v[(typename V::size_type)(sz - 1)]); ret = it_ - v.begin(); } break;
        case 8: { T t = Mk<T>::make(++ctr); { typename V::iterator it_ = v.insert(v.begin() + mid, 2, t); ret = it_ - v.begin(); } } break;  // plain int count: for T = int both arguments are int (count/value vs iterator-pair dispatch)
        case 9: { std::vector<T> s; s.push_back(Mk<T>::make(++ctr)); s.push_back(Mk<T>::make(++ctr)); { typename V::iterator it_ = v.insert(v.begin() + mid, s.begin(), s.end()); ret = it_ - v.begin(); } } break;
        case 10: { T a = Mk<T>::make(++ctr), b = Mk<T>::make(++ctr); { typename V::iterator it_ = v.insert(v.begin(), {a, b}); ret = it_ - v.begin(); } } break;
        case 11: if (sz == 0) return false; { typename V::iterator it_ = v.erase(v.begin()); ret = it_ - v.begin(); } break;
        case 12: if (sz == 0) return false; { typename V::iterator it_ = v.erase(v.begin() + mid); ret = it_ - v.begin(); } break;
        case 13: { typename V::iterator it_ = v.erase(v.begin() + mid, v.end()); ret = it_ - v.begin(); } break;
        case 14: { typename V::iterator it_ = v.erase(v.begin() + mid, v.begin() + mid); ret = it_ - v.begin(); } break;
        case 15: v.resize((typename V::size_type)(sz + 2)); break;
        case 16: v.resize(1); break;
        case 17: { T t = Mk<T>::make(++ctr); v.resize(3, t); } break;
        case 18: { T t = Mk<T>::make(++ctr); v.assign(2, t); } break;
        case 19: { std::vector<T> s; for (int q = 0; q < 3; ++q) s.push_back(Mk<T>::make(++ctr)); v.assign(s.begin(), s.end()); } break;
        case 20: v.clear(); break;
        case 21: v.reserve(6); break;
        case 22: v.shrink_to_fit(); break;
        case 23: { V t; t.push_back(Mk<T>::make(++ctr)); t.push_back(Mk<T>::make(++ctr)); v.swap(t); obs((long)t.size()); } break;
        case 24: { V t; t.push_back(Mk<T>::make(++ctr)); v = t; obs((long)t.size()); } break;
        case 25: { V t; t.push_back(Mk<T>::make(++ctr)); t.push_back(Mk<T>::make(++ctr)); v = std::move(t); obs((long)t.size()); } break;
        case 26: { V &r = v; v = r; } break;
        case 27: { T a = Mk<T>::make(++ctr), b = Mk<T>::make(++ctr), c = Mk<T>::make(++ctr); v = {a, b, c}; } break;
        case 28: ret = Mk<T>::val(v.at((typename V::size_type)sz)); break;
        case 29: { V c(v); obs((long)c.size()); for (const T &e : c) obs(Mk<T>::val(e)); } break;
        case 36: { T t = Mk<T>::make(++ctr); V c(3, t); obs((long)c.size()); for (const T &e : c) obs(Mk<T>::val(e)); v.swap(c); } break;  // V(int, T): for T = int, V(int, int)
        case 30: { V c(std::move(v)); obs((long)c.size()); obs((long)v.size()); v = std::move(c); } break;
#ifdef AMC_NONSTD_FEATURES
        case 31: v.append((typename V::size_type)2); break;
        case 32: { T t = Mk<T>::make(++ctr); v.append(2, t); } break;
        case 33: { std::vector<T> s; s.push_back(Mk<T>::make(++ctr)); s.push_back(Mk<T>::make(++ctr)); v.append(s.begin(), s.end()); } break;
        case 34: if (sz == 0) return false; { T r = v.pop_back_val(); ret = Mk<T>::val(r); } break;
        case 35: { amc::vector<T> o; o.push_back(Mk<T>::make(++ctr)); o.push_back(Mk<T>::make(++ctr)); o.push_back(Mk<T>::make(++ctr)); v.swap2(o); obs((long)o.size()); for (const T &e : o) obs(Mk<T>::val(e)); } break;
#endif
        default: return false;
      }
    } catch (const std::out_of_range &) { exc = 1;
    } catch (const std::overflow_error &) { exc = 2;
    } catch (const std::bad_alloc &) { exc = 3;
    } catch (...) { exc = 9; }
    obs(exc);
    obs(ret);
    obs((long)v.size());
    obs((long)v.capacity());
    obs(v.empty());
    for (const T &e : v) obs(Mk<T>::val(e));
    return true;
  }
  static long live_expected(const V &v) { return (long)v.size() * vf::ObjsPer<T>::value; }
};

// ---- move-only elements ----------------------------------------------------------------------------------------------------
/// An element that can only be moved (counts live objects itself).  Every operation of the MoveInsertable-only API is
/// applied to the amc vector AND to a std::vector mirror; the transcript records whether the two agree, so a wrong
/// result shows in every build and a configuration-dependent one shows as a transcript difference.  That the whole
/// alphabet compiles without a copy constructor in every configuration is itself part of the check.
struct MO {
  int v;
  static long &live() {
    static long n = 0;
    return n;
  }
  MO() : v(0) { ++live(); }
  explicit MO(int x) : v(x) { ++live(); }
  MO(MO &&o) noexcept : v(o.v) {
    o.v = -1;
    ++live();
  }
  MO &operator=(MO &&o) noexcept {
    v = o.v;
    if (this != &o) o.v = -1;
    return *this;
  }
  MO(const MO &) = delete;
  MO &operator=(const MO &) = delete;
  ~MO() { --live(); }
};
template <class AV>
struct MOPair {
  typedef MO value_type;
  AV a;
  std::vector<MO> m;
};
template <class P>
struct MoveOnlyOps {
  struct OpDesc {
    const char *name;
    int feat;
  };
  static const OpDesc *table(int &n) {
    static const OpDesc t[] = {
        {"push_back_m", 0}, {"emplace_back", 0}, {"emplace_back_default", 0}, {"pop_back", 0}, {"insert_begin_m", 0}, {"insert_mid_m", 0},
        {"emplace_mid", 0}, {"erase_begin", 0}, {"erase_mid_to_end", 0}, {"resize_plus2", 0}, {"resize_1", 0}, {"clear", 0}, {"reserve_6", 0},
        {"shrink_to_fit", 0}, {"swap_tmp", 0}, {"move_assign_tmp", 0}, {"move_construct", 0}, {"insert_mid_move_range2", 0},
        {"assign_move_range3", 0}, {"pop_back_val", F_EXTRAS}, {"append_move_range2", F_EXTRAS},
    };
    n = (int)(sizeof t / sizeof t[0]);
    return t;
  }
  template <class V>
  static void fill2(V &t, int &ctr) {
    t.push_back(MO(++ctr));
    t.push_back(MO(++ctr));
  }
  static bool apply(P &p, int op, int &ctr) {
    const long sz = (long)p.m.size();
    const long mid = sz / 2;
    int c2 = ctr;  // the mirror receives the same values
    long ra = -1, rm = -1;
    switch (op) {
      case 0: p.a.push_back(MO(++ctr)); p.m.push_back(MO(++c2)); break;
      case 1: ra = p.a.emplace_back(++ctr).v; p.m.emplace_back(++c2); rm = p.m.back().v; break;
      case 2: p.a.emplace_back(); p.m.emplace_back(); break;
      case 3: if (sz == 0) return false; p.a.pop_back(); p.m.pop_back(); break;
      case 4: { auto ia_ = p.a.insert(p.a.begin(), MO(++ctr)); ra = ia_ - p.a.begin(); } { auto im_ = p.m.insert(p.m.begin(), MO(++c2)); rm = im_ - p.m.begin(); } break;
      case 5: { auto ia_ = p.a.insert(p.a.begin() + mid, MO(++ctr)); ra = ia_ - p.a.begin(); } { auto im_ = p.m.insert(p.m.begin() + mid, MO(++c2)); rm = im_ - p.m.begin(); } break;
      case 6: { auto ia_ = p.a.emplace(p.a.begin() + mid, ++ctr); ra = ia_ - p.a.begin(); } { auto im_ = p.m.emplace(p.m.begin() + mid, ++c2); rm = im_ - p.m.begin(); } break;
      case 7: if (sz == 0) return false; { auto ia_ = p.a.erase(p.a.begin()); ra = ia_ - p.a.begin(); } { auto im_ = p.m.erase(p.m.begin()); rm = im_ - p.m.begin(); } break;
      case 8: { auto ia_ = p.a.erase(p.a.begin() + mid, p.a.end()); ra = ia_ - p.a.begin(); } { auto im_ = p.m.erase(p.m.begin() + mid, p.m.end()); rm = im_ - p.m.begin(); } break;
      case 9: p.a.resize((typename decltype(p.a)::size_type)(sz + 2)); p.m.resize(sz + 2); break;
      case 10: p.a.resize(1); p.m.resize(1); break;
      case 11: p.a.clear(); p.m.clear(); break;
      case 12: p.a.reserve(6); p.m.reserve(6); break;
      case 13: p.a.shrink_to_fit(); break;
      case 14: { decltype(p.a) t; std::vector<MO> tm; fill2(t, ctr); fill2(tm, c2); p.a.swap(t); p.m.swap(tm); obs((long)t.size()); obs((long)(t.size() == tm.size())); } break;
      case 15: { decltype(p.a) t; std::vector<MO> tm; fill2(t, ctr); fill2(tm, c2); p.a = std::move(t); p.m = std::move(tm); obs((long)t.size()); } break;
      case 16: { decltype(p.a) t(std::move(p.a)); obs((long)p.a.size()); p.a = std::move(t); } break;
      case 17: { MO s1[2] = {MO(++ctr), MO(++ctr)}, s2[2] = {MO(++c2), MO(++c2)};
                 { auto ia_ = p.a.insert(p.a.begin() + mid, std::make_move_iterator(s1), std::make_move_iterator(s1 + 2)); ra = ia_ - p.a.begin(); }
                 { auto im_ = p.m.insert(p.m.begin() + mid, std::make_move_iterator(s2), std::make_move_iterator(s2 + 2)); rm = im_ - p.m.begin(); } } break;
      case 18: { MO s1[3] = {MO(++ctr), MO(++ctr), MO(++ctr)}, s2[3] = {MO(++c2), MO(++c2), MO(++c2)};
                 p.a.assign(std::make_move_iterator(s1), std::make_move_iterator(s1 + 3)); p.m.assign(std::make_move_iterator(s2), std::make_move_iterator(s2 + 3)); } break;
#ifdef AMC_NONSTD_FEATURES
      case 19: if (sz == 0) return false; { MO r = p.a.pop_back_val(); ra = r.v; rm = p.m.back().v; p.m.pop_back(); } break;
      case 20: { MO s1[2] = {MO(++ctr), MO(++ctr)}, s2[2] = {MO(++c2), MO(++c2)};
                 p.a.append(std::make_move_iterator(s1), std::make_move_iterator(s1 + 2)); p.m.insert(p.m.end(), std::make_move_iterator(s2), std::make_move_iterator(s2 + 2)); } break;
#endif
      default: return false;
    }
    bool same = ra == rm && p.a.size() == p.m.size();
    for (size_t i = 0; same && i < p.m.size(); ++i) same = p.a[(typename decltype(p.a)::size_type)i].v == p.m[i].v;
    obs(same ? 1 : 0);  // 1 in every transcript of a correct library
    if (!same) ++g_mirror_fail;
    obs(ra);
    obs((long)p.a.size());
    obs((long)p.a.capacity());
    for (const MO &e : p.a) obs(e.v);
    return true;
  }
  static long live_expected(const P &) { return 0; }
};

// ---- sets ------------------------------------------------------------------------------------------------------------
template <class S, bool Flat>
struct SetOps {
  typedef typename S::value_type T;
  struct OpDesc {
    const char *name;
    int feat;
  };
  static const OpDesc *table(int &n) {
    static const OpDesc t[] = {
        {"insert_0", 0}, {"insert_1", 0}, {"insert_2", 0}, {"insert_3", 0}, {"insert_hint_begin_1", 0}, {"insert_hint_end_2", 0}, {"emplace_0", 0},
        {"emplace_hint_begin_3", 0}, {"erase_key_1", 0}, {"erase_key_2", 0}, {"erase_begin", 0}, {"erase_all", 0}, {"clear", 0},
        {"insert_range_202", 0}, {"insert_il_31", 0}, {"assign_il_13", 0}, {"swap_tmp", 0}, {"copy_assign_tmp", 0}, {"move_assign_tmp", 0},
        {"merge_tmp", 0}, {"lookups", 0}, {"compare_tmp", 0}, {"extract_1_reinsert", F_CXX17}, {"extract_begin_into_tmp", F_CXX17},
        {"insert_dup_node", F_CXX17}, {"reserve_shrink", F_EXTRAS}, {"steal_vector", F_EXTRAS}, {"from_vector_312", F_EXTRAS},
    };
    n = (int)(sizeof t / sizeof t[0]);
    return t;
  }
  static void ins(S &s, int k) { s.insert(Mk<T>::make(k)); }
  static bool apply(S &s, int op, int &) {
    long ret = -1, ret2 = -1;
    int exc = 0;
    try {
      switch (op) {
        case 0: case 1: case 2: case 3: { T t = Mk<T>::make(op); std::pair<typename S::iterator, bool> r = s.insert(t); ret = r.second; ret2 = Mk<T>::val(*r.first); } break;
        case 4: { typename S::iterator r = s.insert(s.begin(), Mk<T>::make(1)); ret2 = Mk<T>::val(*r); } break;
        case 5: { T t = Mk<T>::make(2); typename S::iterator r = s.insert(s.end(), t); ret2 = Mk<T>::val(*r); } break;
        case 6: { std::pair<typename S::iterator, bool> r = s.emplace(Mk<T>::make(0)); ret = r.second; ret2 = Mk<T>::val(*r.first); } break;
        case 7: { typename S::iterator r = s.emplace_hint(s.begin(), Mk<T>::make(3)); ret2 = Mk<T>::val(*r); } break;
        case 8: ret = (long)s.erase(Mk<T>::make(1)); break;
        case 9: ret = (long)s.erase(Mk<T>::make(2)); break;
        case 10: if (s.empty()) return false; { typename S::iterator r = s.erase(s.begin()); ret = (r == s.end()) ? -2 : Mk<T>::val(*r); } break;
        case 11: { typename S::iterator r = s.erase(s.begin(), s.end()); ret = (r == s.end()); } break;
        case 12: s.clear(); break;
        case 13: { std::vector<T> v; v.push_back(Mk<T>::make(2)); v.push_back(Mk<T>::make(0)); v.push_back(Mk<T>::make(2)); s.insert(v.begin(), v.end()); } break;
        case 14: { T a = Mk<T>::make(3), b = Mk<T>::make(1); s.insert({a, b}); } break;
        case 15: { T a = Mk<T>::make(1), b = Mk<T>::make(3); s = {a, b}; } break;
        case 16: { S t; ins(t, 0); ins(t, 3); s.swap(t); obs((long)t.size()); } break;
        case 17: { S t; ins(t, 2); s = t; obs((long)t.size()); } break;
        case 18: { S t; ins(t, 1); ins(t, 2); ins(t, 3); s = std::move(t); obs((long)t.size()); } break;
        case 19: { S t; ins(t, 0); ins(t, 2); s.merge(t); obs((long)t.size()); for (typename S::const_iterator it = t.begin(); it != t.end(); ++it) obs(Mk<T>::val(*it)); } break;
        case 20: {
          for (int k = -1; k <= 4; ++k) {
            T t = Mk<T>::make(k);
            typename S::const_iterator f = s.find(t);
            obs(f == s.end() ? -2 : Mk<T>::val(*f));
            obs((long)s.count(t));
            obs(s.contains(t));
            lookups_flat(s, t, std::integral_constant<bool, Flat>());
          }
        } break;
        case 21: { S t; ins(t, 1); ins(t, 2); obs(s == t); obs(s != t); obs(s < t); obs(s <= t); obs(s > t); obs(s >= t); } break;
#ifdef AMC_CXX17
        case 22: { auto nh = s.extract(Mk<T>::make(1)); ret = nh.empty(); auto r = s.insert(std::move(nh)); ret2 = r.inserted; obs(r.node.empty()); } break;
        case 23: if (s.empty()) return false; { S t; ins(t, 0); auto nh = s.extract(s.begin()); int val = Mk<T>::val(nh.value()); auto r = t.insert(std::move(nh)); ret = r.inserted; ret2 = val; obs(r.node.empty()); obs((long)t.size()); } break;
        case 24: { S t; ins(t, 2); auto nh = t.extract(Mk<T>::make(2)); auto r = s.insert(std::move(nh)); ret = r.inserted; obs(r.node.empty()); if (!r.node.empty()) obs(Mk<T>::val(r.node.value())); } break;
#endif
#ifdef AMC_NONSTD_FEATURES
        case 25: extras_flat(s, 0, std::integral_constant<bool, Flat>()); break;
        case 26: extras_flat(s, 1, std::integral_constant<bool, Flat>()); break;
        case 27: extras_flat(s, 2, std::integral_constant<bool, Flat>()); break;
#endif
        default: return false;
      }
    } catch (const std::out_of_range &) { exc = 1;
    } catch (const std::overflow_error &) { exc = 2;
    } catch (const std::bad_alloc &) { exc = 3;
    } catch (...) { exc = 9; }
    obs(exc);
    obs(ret);
    obs(ret2);
    obs((long)s.size());
    obs(s.empty());
    // iteration order is part of the transcript for FlatSet; for SmallSet (unspecified inline order) it is still
    // deterministic for a given history, so it is compared across builds as well
    for (typename S::const_iterator it = s.begin(); it != s.end(); ++it) obs(Mk<T>::val(*it));
    for (typename S::const_reverse_iterator it = s.rbegin(); it != s.rend(); ++it) obs(Mk<T>::val(*it));
    return true;
  }
  static void lookups_flat(const S &s, const T &t, std::true_type) {
    obs((long)(s.lower_bound(t) - s.begin()));
    obs((long)(s.upper_bound(t) - s.begin()));
    std::pair<typename S::const_iterator, typename S::const_iterator> er = s.equal_range(t);
    obs((long)(er.second - er.first));
  }
  static void lookups_flat(const S &, const T &, std::false_type) {}
#ifdef AMC_NONSTD_FEATURES
  static void extras_flat(S &s, int which, std::true_type) {
    if (which == 0) {
      s.reserve(5);
      obs((long)s.capacity());
      s.shrink_to_fit();
      obs((long)s.capacity());
      if (!s.empty()) { obs(Mk<T>::val(s[0])); obs(Mk<T>::val(s.at(0))); obs(Mk<T>::val(*s.data())); }
    } else if (which == 1) {
      typename S::vector_type v = s.steal_vector();
      obs((long)v.size());
      for (const T &e : v) obs(Mk<T>::val(e));
    } else {
      typename S::vector_type v;
      v.push_back(Mk<T>::make(3)); v.push_back(Mk<T>::make(1)); v.push_back(Mk<T>::make(2)); v.push_back(Mk<T>::make(1));
      s = std::move(v);
    }
  }
  static void extras_flat(S &, int, std::false_type) {}
#endif
  static long live_expected(const S &s) { return (long)s.size() * vf::ObjsPer<T>::value; }
};

/// a FlatSet whose comparator object carries state that a default-constructed comparator does not have (descending
/// order): every path that rebuilds the set from scratch instead of assigning into it shows as a changed order
struct DirCmp {
  bool desc;
  explicit DirCmp(bool d = false) : desc(d) {}
  bool operator()(int a, int b) const { return desc ? b < a : a < b; }
};
typedef amc::FlatSet<int, DirCmp> DescSetBase;
struct DescSet : DescSetBase {
  typedef DescSetBase Base;
  DescSet() : Base(::DirCmp(true)) {}  // (FlatSet derives privately from its comparator: the injected name is inaccessible)
  using Base::operator=;
};

// ---- enumeration -------------------------------------------------------------------------------------------------------
static std::string g_want_cont, g_want_first;
struct Bucket {
  std::string cont, first;
  u64 h;
  long seqs;
};
static std::vector<Bucket> g_buckets;

template <class C, class Ops>
static void enumerate_type(const char *cname, int depth) {
  if (!g_want_cont.empty() && g_want_cont != cname) return;
  int nops = 0;
  const typename Ops::OpDesc *tab = Ops::table(nops);
  std::vector<int> alpha;
  for (int o = 0; o < nops; ++o)
    if ((tab[o].feat & ~g_allowed) == 0) alpha.push_back(o);
  for (size_t f = 0; f < alpha.size(); ++f) {
    if (!g_want_first.empty() && g_want_first != tab[alpha[f]].name) continue;
    Bucket b;
    b.cont = cname;
    b.first = tab[alpha[f]].name;
    b.h = 1469598103934665603ULL;
    b.seqs = 0;
    // all sequences of length 1..depth starting with alpha[f]
    std::vector<int> seq(1, (int)f);
    for (;;) {
      // run the sequence on a fresh container
      vf::L().reset();
      g_h = 1469598103934665603ULL;
      g_line.clear();
      bool enabled = true;
      {
        Guarded<C> gc;
        C &c = gc.c;
        int ctr = 0;
        obs((long)sizeof(C));  // the object layout is part of what a program observes
        for (size_t x = 0; x < seq.size() && enabled; ++x) enabled = Ops::apply(c, alpha[seq[x]], ctr);
        if (enabled) {
          obs(vf::El<typename C::value_type>::tracked ? (long)(vf::L().live() - Ops::live_expected(c)) : 0);
          obs(gc.damaged());
        }
      }
      if (g_mirror_fail && g_mirror_first.empty()) {
        g_mirror_first = std::string(cname) + ":";
        for (size_t x = 0; x < seq.size(); ++x) g_mirror_first += std::string(" ") + tab[alpha[seq[x]]].name;
      }
      if (enabled) {
        obs(vf::L().live());
        obs(vf::L().nfail);
        b.h = (b.h ^ g_h) * 1099511628211ULL;
        ++b.seqs;
        if (g_dump) {
          std::string names;
          for (size_t x = 0; x < seq.size(); ++x) names += std::string(x ? " " : "") + tab[alpha[seq[x]]].name;
          std::printf("%s|%s|%s%s\n", cname, names.c_str(), g_line.c_str(), vf::L().nfail ? vf::L().fails[0].msg : "");
        }
      }
      // next sequence (odometer with variable length; a disabled prefix is not extended)
      if (enabled && (int)seq.size() < depth) seq.push_back(0);
      else {
        while (seq.size() > 1 && seq.back() + 1 >= (int)alpha.size()) seq.pop_back();
        if (seq.size() == 1) break;
        ++seq.back();
      }
    }
    g_buckets.push_back(b);
  }
}

int main(int argc, char **argv) {
  int depth = 3;
  std::string feats = "b";
  for (int a = 1; a < argc; ++a) {
    std::string s = argv[a];
    if (s == "--depth" && a + 1 < argc) depth = std::atoi(argv[++a]);
    else if (s == "--features" && a + 1 < argc) feats = argv[++a];
    else if (s == "--dump" && a + 2 < argc) {
      g_dump = true;
      g_want_cont = argv[++a];
      g_want_first = argv[++a];
    }
  }
  g_allowed = 0;
  if (feats.find('e') != std::string::npos) {
#ifdef AMC_NONSTD_FEATURES
    g_allowed |= F_EXTRAS;
#else
    std::fprintf(stderr, "extras not compiled in\n");
    return 2;
#endif
  }
  if (feats.find("17") != std::string::npos) {
#ifdef AMC_CXX17
    g_allowed |= F_CXX17;
#else
    std::fprintf(stderr, "C++17 features not compiled in\n");
    return 2;
#endif
  }
  typedef amc::vector<int> V1;
  typedef amc::SmallVector<int, 2> V2;
  typedef amc::SmallVector<vf::TR, 3, amc::allocator<vf::TR>, uint8_t> V3;
  typedef amc::FixedCapacityVector<vf::NTR, 3> V4;
  typedef amc::vector<vf::NTR, std::allocator<vf::NTR>, int16_t> V5;
  typedef amc::SmallVector<vf::NTR, 2> V6;
  enumerate_type<V1, VecOps<V1> >("vector_int", depth);
  enumerate_type<V2, VecOps<V2> >("smallvector_int_2", depth);
  enumerate_type<V3, VecOps<V3> >("smallvector_TR_3_u8", depth);
  enumerate_type<V4, VecOps<V4> >("fixedcapacityvector_NTR_3", depth);
  enumerate_type<V5, VecOps<V5> >("vector_NTR_stdalloc_i16", depth);
  enumerate_type<V6, VecOps<V6> >("smallvector_NTR_2", depth);
  // elements smaller than a pointer that do not divide it: the number of elements overlaid on the pointer is computed
  // by standard-dependent code
  typedef amc::SmallVector<Blob<3>, 3> V7;
  typedef amc::SmallVector<Blob<6>, 2, amc::allocator<Blob<6> >, uint8_t> V8;
  typedef amc::SmallVector<Blob<3>, 5, std::allocator<Blob<3> >, uint16_t> V9;
  enumerate_type<V7, VecOps<V7> >("smallvector_blob3_3", depth);
  enumerate_type<V8, VecOps<V8> >("smallvector_blob6_2_u8", depth);
  enumerate_type<V9, VecOps<V9> >("smallvector_blob3_5_stdalloc_u16", depth);
  // move-only elements, mirrored on std::vector
  typedef MOPair<amc::vector<MO> > M1;
  typedef MOPair<amc::SmallVector<MO, 2> > M2;
  typedef MOPair<amc::FixedCapacityVector<MO, 12> > M3;
  enumerate_type<M1, MoveOnlyOps<M1> >("vector_moveonly", depth);
  enumerate_type<M2, MoveOnlyOps<M2> >("smallvector_moveonly_2", depth);
  enumerate_type<M3, MoveOnlyOps<M3> >("fixedcapacityvector_moveonly_12", depth);
  typedef amc::FlatSet<int> S1;
  typedef amc::FlatSet<vf::TR, std::greater<vf::TR>, amc::allocator<vf::TR>, amc::SmallVector<vf::TR, 2> > S2;
  typedef amc::FlatSet<vf::NTR> S3;
  enumerate_type<S1, SetOps<S1, true> >("flatset_int", depth);
  enumerate_type<S2, SetOps<S2, true> >("flatset_TR_greater_smallvector2", depth);
  enumerate_type<S3, SetOps<S3, true> >("flatset_NTR", depth);
  enumerate_type<DescSet, SetOps<DescSet, true> >("flatset_int_descending_state", depth);
#ifdef AMC_SMALLSET
  if (g_allowed & F_CXX17) {
    typedef amc::SmallSet<int, 2> Q1;
    typedef amc::SmallSet<vf::NTR, 3, std::less<vf::NTR>, amc::allocator<vf::NTR>, amc::FlatSet<vf::NTR> > Q2;
    enumerate_type<Q1, SetOps<Q1, false> >("smallset_int_2_stdset", depth);
    enumerate_type<Q2, SetOps<Q2, false> >("smallset_NTR_3_flatset", depth);
  }
#endif
  if (g_mirror_fail) {
    std::fprintf(stderr, "move-only container disagrees with its std::vector mirror on %ld steps; first sequence: %s\n", g_mirror_fail, g_mirror_first.c_str());
    return 3;
  }
  if (MO::live() != 0) {
    std::fprintf(stderr, "%ld move-only elements alive after every container was destroyed\n", MO::live());
    return 3;
  }
  if (!g_dump) {
    long total = 0;
    for (size_t i = 0; i < g_buckets.size(); ++i) {
      std::printf("%s|%s|%ld|%016llx\n", g_buckets[i].cont.c_str(), g_buckets[i].first.c_str(), g_buckets[i].seqs, g_buckets[i].h);
      total += g_buckets[i].seqs;
    }
    std::printf("TOTAL|%ld\n", total);
  }
  return 0;
}
