"""C14 -- containers honour their own trivially_relocatable declaration.  E1/E2 in relocation mode: before the checked
operation (quick) / after every operation of the history as well (thorough) each container whose type claims the trait is
memcpy'd to another buffer, the source bytes are poisoned and abandoned; every oracle of C01/C02/C03/C04/C06 then applies
to the relocated object.  The converse (no claim when a part is not relocatable) is evaluated per instantiation."""
from checks import e1, e2


def run(ctx):
    q = ctx.tier == "quick"
    r = 1 if q else 2
    I = e1.inst
    few = ["--few-ranges"]
    vm = [
        I("vector", 0, "NTR", alloc="ledgerstd", L=3, reloc=r, opts=few),
        I("vector", 0, "TC4", L=4, reloc=r, opts=few),
        I("small", 2, "TC4", L=4, reloc=r, opts=few),
        I("small", 3, "TR", st="uint8_t", alloc="ledgerrealloc", L=4, reloc=r, opts=few),
        I("small", 2, "PTT", alloc="ledgerbasic", L=3, reloc=r, opts=few),
        I("fixed", 3, "TR", st="uint8_t", L=3, reloc=r, opts=few),
        I("fixedu", 3, "TC4", st="uint8_t", L=3, reloc=r, opts=few),
        # over-aligned element (std::allocator: amc::allocator is malloc based and only gives 16-byte alignment)
        I("small", 2, "TC32", alloc="std", L=3, reloc=r, opts=few),
        I("fixed", 3, "TC32", st="uint8_t", L=3, reloc=r, opts=few),
        I("small", 2, "NTR", alloc="ledgerstd", L=3, reloc=r, opts=few),   # must NOT claim (static part)
        I("fixed", 2, "PTN", st="uint8_t", L=2, reloc=r, opts=few),        # must NOT claim
        I("small", 1, "NTR", alloc="ledgerstd", L=3, reloc=r, opts=few),   # must NOT claim (element lives in the pointer slot)
        I("fixed", 1, "NTR", st="uint8_t", L=1, reloc=r, opts=few),        # must NOT claim
        I("small", 1, "TC12", st="uint16_t", alloc="std", L=3, reloc=r, opts=few),  # claims (12-byte element in the pointer slot)
    ]
    if not q:
        # (K=2 L=3 with a relocation after every operation does not finish in 45 minutes since the key distinguishes zero)
        vm += [I("small", 2, "TC4", K=2, L=2, reloc=r, opts=few + ["--no-ctors"]), I("vector", 0, "TR", alloc="ledgerrealloc", K=2, L=2, reloc=r, opts=few),
               I("small", 5, "TC1", st="int16_t", L=6, reloc=r, opts=few + ["--no-alias", "--no-ctors"]), I("small", 1, "TC12", st="uint16_t", alloc="std", L=3, reloc=r)]
    cov = e1.explore(ctx, vm, ["C14"], any_fail_counts=True, only_claiming=True)
    S = e2.inst
    so = ["--few-ranges", "--seqlen", "2"]
    sm = [
        S("flatset", "NTR", "less", "amcvector", alloc="ledgerstd", reloc=r, opts=so),
        S("flatset", "TR", "greater", "smallvector2", reloc=r, opts=so),
        S("flatset", "TC4", "coarse", "fixed8", reloc=r, opts=so),
        S("smallset", "TC4", "less", back="flatset", N=2, reloc=r, opts=so),
        S("smallset", "TR", "less", back="flatset", N=3, keys=5, reloc=r, opts=so),
        # a comparator with state that is itself relocatable (trivially copyable): the set claims, and whatever the set
        # keeps beside the vector (cached functors, pointers to its own comparator) must survive the memcpy
        S("flatset", "TC4", "stateful", "amcvector", reloc=r, opts=so),
        S("smallset", "TC4", "stateful", back="flatset", N=2, reloc=r, opts=so),
        S("smallset", "TC4", "less", back="stdset", N=2, reloc=r, opts=so),      # must NOT claim
        S("flatset", "NTR", "less", "smallvector2", reloc=r, opts=so),           # must NOT claim
        S("flatset", "TC4", "less", "stdvector", reloc=r, opts=so),              # must NOT claim
        S("flatset", "TC4", "selfptr", "amcvector", reloc=r, opts=so),           # must NOT claim (comparator is not relocatable)
        S("smallset", "TC4", "selfptr", back="flatset", N=2, reloc=r, opts=so),  # must NOT claim
    ]
    cov2 = e1.explore(ctx, sm, ["C14"], engine="E2", eng=e2.ENG, any_fail_counts=True, only_claiming=True)
    cov = e1.merge_cov(cov, cov2)
    cov["relocation"] = "before the checked operation" if q else "after every operation of every history and before the checked operation"
    return ctx.finish("model_checking", cov, e1.ASSUME + ["relocation = memcpy to a second aligned buffer, source bytes overwritten with 0xEE and never destroyed"])
