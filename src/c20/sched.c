/* C20 serialising scheduler -- see sched.h.  Plain C, no sanitizer, no function instrumentation in this TU.
 *
 * Invariant: between sched_run()'s initial decision and the last worker's exit exactly one worker holds the "token"
 * (cur); every other worker is parked in futex_wait on its own word; main is parked on `done`.  All bookkeeping
 * below is touched by the token holder only, so it needs no locking; the token moves by  word[next]=1 + FUTEX_WAKE
 * (release/acquire atomics give the hardware ordering; ThreadSanitizer does not see them because this TU is not
 * instrumented and the wake/wait goes through the raw syscall, which libtsan does not model as synchronisation).
 */
#define _GNU_SOURCE
#include "sched.h"

#include <errno.h>
#include <linux/futex.h>
#include <sched.h>
#include <stdio.h>
#include <string.h>
#include <sys/syscall.h>
#include <time.h>
#include <unistd.h>

#define NOINSTR __attribute__((no_instrument_function))
#define HANG_SECONDS 20 /* a parked thread that is not woken for this long == the run is stuck (hard error) */

static int g_active;                     /* 1 between sched_begin() and the end of sched_run() */
static int g_nt;                         /* number of workers of this run */
static int g_word[SCHED_MAX_THREADS];    /* futex word per worker: 1 == "you hold the token" */
static int g_arrived, g_done;            /* futex words main waits on */
static int g_cur;                        /* token holder, -1 before the initial decision */
static int g_alive;                      /* number of unfinished workers == size of the enabled set */
static unsigned char g_fin[SCHED_MAX_THREADS], g_roi[SCHED_MAX_THREADS];
static unsigned short g_op[SCHED_MAX_THREADS];
static unsigned g_fn[SCHED_MAX_THREADS];
static const int *g_prefix;
static int g_nprefix;
static const unsigned *g_expect;
static sched_rec g_trace[SCHED_MAX_POINTS];
static int g_np;
static char g_ctx[4096];
static __thread int my_tid = -1;

static NOINSTR void die(const char *msg, int a, int b) {
  char buf[4400];
  int n = snprintf(buf, sizeof buf, "C20-SCHED-ERROR: %s (%d,%d) at point %d; %s\n", msg, a, b, g_np, g_ctx);
  if (write(2, buf, (size_t)n) < 0) {
  }
  _exit(3);
}

static NOINSTR void futex_wait_for(int *w, int want, const char *who) { /* block until *w == want */
  struct timespec ts = {HANG_SECONDS, 0};
  for (;;) {
    int v = __atomic_load_n(w, __ATOMIC_ACQUIRE);
    if (v == want) return;
    long r = syscall(SYS_futex, w, FUTEX_WAIT_PRIVATE, v, &ts, NULL, 0);
    if (r == -1 && errno == ETIMEDOUT) die(who, v, want); /* stuck: deadlock of the system under test or harness */
  }
}

static NOINSTR void futex_set_wake(int *w, int v) {
  __atomic_store_n(w, v, __ATOMIC_RELEASE);
  syscall(SYS_futex, w, FUTEX_WAKE_PRIVATE, 64, NULL, NULL, 0);
}

NOINSTR void sched_set_context(const char *text) {
  strncpy(g_ctx, text, sizeof g_ctx - 1);
  g_ctx[sizeof g_ctx - 1] = 0;
}

NOINSTR void sched_begin(int nthreads, const int *prefix, int nprefix, const unsigned *expect_sig) {
  if (nthreads < 1 || nthreads > SCHED_MAX_THREADS) die("bad thread count", nthreads, 0);
  g_nt = nthreads;
  g_prefix = prefix;
  g_nprefix = nprefix;
  g_expect = expect_sig;
  g_np = 0;
  g_cur = -1;
  g_alive = nthreads;
  g_arrived = g_done = 0;
  memset(g_word, 0, sizeof g_word);
  memset(g_fin, 0, sizeof g_fin);
  memset(g_roi, 0, sizeof g_roi);
  memset(g_op, 0, sizeof g_op);
  memset(g_fn, 0, sizeof g_fn);
  __atomic_store_n(&g_active, 1, __ATOMIC_RELEASE);
}

/* One scheduling decision taken by the token holder t (t == -1: main, initial decision).  Returns the thread that
 * runs next, or -1 when every worker has finished. */
static NOINSTR int decide(int kind, int t, int cur_enabled) {
  int n = g_alive; /* the running thread (if still enabled) + every other unfinished thread */
  if (n == 0) { /* nobody left to run: fine iff every worker finished, otherwise the system is deadlocked.  (Workers
                  never wait for each other in this model, so enabled == unfinished; a worker that really blocks,
                  e.g. on a lock held by a preempted thread, is caught by the HANG_SECONDS timeout instead.) */
    for (int k = 0; k < g_nt; k++)
      if (!g_fin[k]) die("deadlock: no enabled thread but a thread is unfinished", k, 0);
    return -1;
  }
  int i = g_np;
  if (i >= SCHED_MAX_POINTS) die("too many scheduling points", i, 0);
  int c = i < g_nprefix ? g_prefix[i] : 0; /* replay, then default "keep running" */
  if (c < 0 || c >= n) die("divergence: choice out of range", c, n);
  int nx = t;
  if (c != 0 || !cur_enabled) { /* enabled list: running thread first (if enabled), then ascending ids */
    int en[SCHED_MAX_THREADS], m = 0;
    if (cur_enabled) en[m++] = t;
    for (int k = 0; k < g_nt; k++)
      if (k != t && !g_fin[k]) en[m++] = k;
    if (m != n) die("internal: enabled list inconsistent", m, n);
    nx = en[c];
  }
  sched_rec *r = &g_trace[i];
  r->nen = (unsigned char)n;
  r->chosen = (unsigned char)c;
  r->cur_enabled = (unsigned char)cur_enabled;
  r->kind = (unsigned char)kind;
  r->tid = (signed char)t;
  r->next = (signed char)nx;
  r->opidx = t >= 0 ? g_op[t] : 0;
  r->funcnt = t >= 0 ? g_fn[t] : 0;
  if (i < g_nprefix && g_expect && g_expect[i] != sched_sig(r))
    die("divergence: replay reached a different point (enabled set / thread / position) than recorded", (int)g_expect[i], (int)sched_sig(r));
  g_np = i + 1;
  return nx;
}

/* A point reached by the running worker, which stays enabled. */
static NOINSTR void point(int kind) {
  int t = my_tid;
  if (t != g_cur) die("scheduling point reached by a thread that does not hold the token", t, g_cur);
  int nx = decide(kind, t, 1);
  if (nx == t) return;
  g_cur = nx;
  futex_set_wake(&g_word[nx], 1);
  futex_wait_for(&g_word[t], 1, "worker parked too long (hang)");
  __atomic_store_n(&g_word[t], 0, __ATOMIC_RELAXED);
}

NOINSTR void sched_thread_start(int tid) {
  if (!g_active) return;
  my_tid = tid;
  __atomic_add_fetch(&g_arrived, 1, __ATOMIC_ACQ_REL);
  syscall(SYS_futex, &g_arrived, FUTEX_WAKE_PRIVATE, 1, NULL, NULL, 0);
  futex_wait_for(&g_word[tid], 1, "worker never started (hang)");
  __atomic_store_n(&g_word[tid], 0, __ATOMIC_RELAXED);
}

NOINSTR void sched_op_boundary(void) {
  if (!g_active || my_tid < 0) return;
  g_op[my_tid]++;
  g_fn[my_tid] = 0;
  point(SCHED_K_OP);
}

NOINSTR void sched_roi(int on) {
  if (g_active && my_tid >= 0) g_roi[my_tid] = (unsigned char)on;
}

NOINSTR void sched_thread_exit(void) {
  if (!g_active || my_tid < 0) return;
  int t = my_tid;
  if (t != g_cur) die("exit by a thread that does not hold the token", t, g_cur);
  g_op[t]++;
  g_fn[t] = 0;
  g_fin[t] = 1;
  g_alive--;
  g_roi[t] = 0;
  my_tid = -1;
  int nx = decide(SCHED_K_EXIT, t, 0);
  g_cur = nx;
  if (nx < 0)
    futex_set_wake(&g_done, 1);
  else
    futex_set_wake(&g_word[nx], 1);
}

NOINSTR void sched_run(void) {
  for (;;) { /* wait until every worker is parked in sched_thread_start */
    int v = __atomic_load_n(&g_arrived, __ATOMIC_ACQUIRE);
    if (v == g_nt) break;
    struct timespec ts = {HANG_SECONDS, 0};
    long r = syscall(SYS_futex, &g_arrived, FUTEX_WAIT_PRIVATE, v, &ts, NULL, 0);
    if (r == -1 && errno == ETIMEDOUT) die("workers did not arrive", v, g_nt);
  }
  int nx = decide(SCHED_K_START, -1, 0);
  g_cur = nx;
  futex_set_wake(&g_word[nx], 1);
  futex_wait_for(&g_done, 1, "run did not finish (deadlock or hang)");
  if (g_np < g_nprefix) die("divergence: run ended before the schedule prefix was consumed", g_np, g_nprefix);
  __atomic_store_n(&g_active, 0, __ATOMIC_RELEASE);
}

NOINSTR int sched_npoints(void) { return g_np; }
NOINSTR const sched_rec *sched_trace(void) { return g_trace; }

/* -finstrument-functions hooks ("fine" build): every function entry of instrumented code executed by the running
 * worker inside its region of interest is a scheduling point. */
NOINSTR void __cyg_profile_func_enter(void *fn, void *site) {
  (void)fn;
  (void)site;
  int t = my_tid;
  if (t < 0 || !g_active || !g_roi[t]) return;
  g_fn[t]++;
  point(SCHED_K_FUNC);
}
NOINSTR void __cyg_profile_func_exit(void *fn, void *site) {
  (void)fn;
  (void)site;
}

/* worker pool generation word = (generation << 3) | workers of that generation.  No hang timeout here: an idle
 * pool thread may sleep for as long as it likes. */
static int g_gen;
NOINSTR int sched_pool_wait(int *seen) {
  for (;;) {
    int v = __atomic_load_n(&g_gen, __ATOMIC_ACQUIRE);
    if (v != *seen) {
      *seen = v;
      return v & 7;
    }
    syscall(SYS_futex, &g_gen, FUTEX_WAIT_PRIVATE, v, NULL, NULL, 0);
  }
}
NOINSTR void sched_pool_release(int nthreads) {
  int v = (int)(((((unsigned)g_gen >> 3) + 1) << 3) | (unsigned)nthreads);
  __atomic_store_n(&g_gen, v, __ATOMIC_RELEASE);
  syscall(SYS_futex, &g_gen, FUTEX_WAKE_PRIVATE, 64, NULL, NULL, 0);
}

/* spin barrier for the free-running (no scheduler) pass */
static int g_bar_n, g_bar_c;
NOINSTR void sched_barrier_init(int n) {
  g_bar_n = n;
  __atomic_store_n(&g_bar_c, 0, __ATOMIC_RELEASE);
}
NOINSTR void sched_barrier_wait(void) {
  __atomic_add_fetch(&g_bar_c, 1, __ATOMIC_ACQ_REL);
  while (__atomic_load_n(&g_bar_c, __ATOMIC_ACQUIRE) < g_bar_n) sched_yield();
}
