"""C19 -- lookups are logarithmic; a correct hint makes insertion search-free; inline SmallSet lookups <= 2N+2 (grid_c19.cpp)."""
import re

from checks import grids


def run(ctx):
    q = ctx.tier == "quick"
    base = ["-std=c++17", "-O1", "-g1", "-w", "-DAMC_NONSTD_FEATURES", "-fsanitize=address"]
    configs = []
    for vec, vn in ((0, "amcvector"), (1, "smallvector4"), (3, "stdvector")):
        for cmp, cn in ((0, "less"), (1, "greater"), (2, "transparent")):
            configs.append(("%s-%s" % (vn, cn), base + ["-DC19_VEC=%d" % vec, "-DC19_CMP=%d" % cmp]))
    # class-type element without a noexcept move, built from constructor arguments (see grid_c19.cpp, C19_ELEM)
    for vec, vn, cmp, cn in ((0, "amcvector", 0, "less"), (1, "smallvector4", 1, "greater"), (3, "stdvector", 0, "less")):
        configs.append(("%s-%s-key" % (vn, cn), base + ["-DC19_VEC=%d" % vec, "-DC19_CMP=%d" % cmp, "-DC19_ELEM=1"]))
    cov = grids.run_grids(ctx, "grid_c19.cpp", "G19", configs, ["--nmax", "128" if q else "4096"],
                          lambda f: re.sub(r"\d+", "#", "|".join(f.split("|")[2:]) if f.startswith("n=") else f),
                          "one evaluation = one counted call (lookup, insert/emplace/erase position search, correctly hinted insertion, inline SmallSet lookup) for one (n, key rank); distinct non-trivial = correctly hinted insertions and inline SmallSet lookups (the two claims that are not a plain binary search)")
    return ctx.finish("exploration", cov, ["comparator calls are counted by the comparator object itself", "every n in 0..128 (thorough: up to 4096, all n <= 300 and every power-of-two neighbourhood), every key rank present and absent"])
