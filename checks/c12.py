"""C12 -- a hint is only a hint.  E2 restricted to {insert, erase} (to reach every subset of the key domain) plus
insert(hint, const&), insert(hint, &&) and emplace_hint for EVERY hint position in [begin, end] and EVERY value (present,
absent below / between / above) from every reachable FlatSet content, capacity state (exact / spare) included."""
from checks import e1, e2


def matrix(q):
    m = []
    keys = 6 if q else 9
    for cmp in ("less", "greater", "coarse"):
        for vec in ("amcvector", "smallvector2", "fixed8", "stdvector"):
            k = min(keys, 8) if vec == "fixed8" else keys
            el = {"amcvector": "TC4", "smallvector2": "TR", "fixed8": "NTR", "stdvector": "TC4"}[vec]
            m.append(e2.inst("flatset", el, cmp, vec, keys=k, opts=["--hint-only"]))
    # a FULL underlying vector: a hinted insertion of a present value is still a no-op, of an absent one a clean refusal
    m.append(e2.inst("flatset", "TC4", "less", "fixed3", keys=4, opts=["--hint-only"]))
    m.append(e2.inst("flatset", "NTR", "coarse", "fixed3", keys=5, opts=["--hint-only"]))
    # a comparator with state: every decision of the hinted paths must go through the stored object
    m.append(e2.inst("flatset", "TC4", "stateful", "amcvector", keys=keys, opts=["--hint-only"]))
    m.append(e2.inst("flatset", "TR", "stateful", "smallvector2", keys=min(keys, 7), opts=["--hint-only"]))
    return m


def run(ctx):
    cov = e1.explore(ctx, matrix(ctx.tier == "quick"), ["C12"], engine="E2", eng=e2.ENG)
    cov["bound"] = "all subsets of a k-key domain (k=6 quick, 9 thorough) x all hints x all values x 3 hinted operations x {less, greater, coarse} x 4 underlying vectors, and a stateful comparator over 2"
    return ctx.finish("model_checking", cov, e2.ASSUME)
